#!/bin/bash
cd /verif || exit 2
for id in "$@"; do
    d=seeded/$id
    tools/seeded.sh "$d/patch.diff" > "$d/caught_by.txt" 2>&1
    echo "$id: $(grep -c CAUGHT "$d/caught_by.txt") checks alarm: $(grep CAUGHT "$d/caught_by.txt" | cut -d: -f1 | tr '\n' ' ')"
done
