#!/usr/bin/env python3
"""Prints the section-9 cost table of DESIGN.md from evidence/*.json (quick tier)."""
import json, os
HERE = os.path.dirname(os.path.dirname(os.path.abspath(__file__)))
print("| check | scenarios (evaluations) | injected faults / stimuli | simulated clock edges | simulated machine time | wall |")
print("|---|---|---|---|---|---|")
for pid in "C01 C04 C05 C07 C09 C10 C11 C12 C13 C14 C15 C17".split():
    e = json.load(open(os.path.join(HERE, "evidence", pid + ".json")))
    c = e["coverage"]
    faults = sum(c.get("faults_fired", {}).values())
    edges = c.get("simulated_clock_edges", 0)
    secs = c.get("simulated_machine_seconds", 0)
    def h(n):
        n = float(n)
        for u, d in (("G", 1e9), ("M", 1e6), ("k", 1e3)):
            if n >= d:
                return "%.1f %s" % (n / d, u)
        return "%d" % n
    print("| %s | %s (%s) | %s | %s | %s | %.1f s |" % (pid, h(c.get("simulated_runs", 0)), h(c.get("evaluations", 0)), h(faults), h(edges) if edges else "–", ("%.0f s" % secs) if secs else "–", e["wall_s"]))
