#!/bin/bash
# usage: tools/seeded.sh <patch.diff> [ID ...]
# Applies a seeded change to /repo, runs the quick checks (all twelve unless IDs are given), prints
# which of them raise an alarm, and undoes the change straight afterwards. Evidence and replay
# files of these runs go to a scratch VERIF_DIR, never to /verif.
set -u
PATCH="$(readlink -f "$1")"; shift
IDS="${*:-C01 C04 C05 C07 C09 C10 C11 C12 C13 C14 C15 C17}"
SCR="$(mktemp -d /tmp/seeded.XXXXXX)"
mkdir -p "$SCR/sim"

cp /verif/known_findings.json "$SCR/" 2>/dev/null
cd /repo || exit 2
if ! git diff --quiet; then echo "/repo has uncommitted changes" >&2; exit 2; fi
if ! git apply --check "$PATCH" 2>/dev/null; then echo "patch does not apply" >&2; exit 2; fi
git apply "$PATCH"
trap 'cd /repo && git checkout -- . && git clean -fdq emulator-2a-lib/tests 2>/dev/null; rm -rf "$SCR"' EXIT
cd /verif
for id in $IDS; do
    out="$(VERIF_DIR="$SCR" VERIF_HANG_S="${VERIF_HANG_S:-10}" timeout 900 ./check "$id" quick 2>&1)"; rc=$?
    case $rc in
        0) echo "$id: miss" ;;
        1) echo "$id: CAUGHT $(echo "$out" | grep -m1 '^minimised\|^violation' | cut -c1-220)" ;;
        *) echo "$id: rc=$rc $(echo "$out" | grep -m1 'HARNESS\|error' | cut -c1-200)" ;;
    esac
done
