#!/bin/bash
# usage: tools/multiseed.sh FROM TO [ID ...]   — runs the quick checks under many VERIF_SEED values
# (evidence/replays go to a scratch VERIF_DIR); prints every run that does not exit 0.
FROM=$1; TO=$2; shift 2
IDS="${*:-C01 C04 C05 C07 C09 C10 C11 C12 C13 C14 C15 C17}"
HERE="$(cd "$(dirname "$0")/.." && pwd)"
SCR="$(mktemp -d /tmp/multiseed.XXXXXX)"; mkdir -p "$SCR/sim"; ln -s "$HERE/sim/target-repo" "$SCR/sim/target-repo"
cp "$HERE/known_findings.json" "$SCR/"
bad=0
for seed in $(seq "$FROM" "$TO"); do
  for id in $IDS; do
    out="$(cd "$HERE" && VERIF_SEED=$seed VERIF_DIR="$SCR" ./check "$id" quick 2>&1)"; rc=$?
    if [ $rc -ne 0 ]; then bad=$((bad+1)); echo "seed=$seed $id rc=$rc"; echo "$out" | tail -4; cp -r "$SCR/replays" "/tmp/multiseed-replays-$seed-$id" 2>/dev/null; fi
  done
  echo "seed $seed done (bad so far: $bad)"
done
rm -rf "$SCR"
echo "TOTAL non-zero exits: $bad"
