#!/usr/bin/env python3
"""Rewrites the region between the SEEDED-MATRIX markers of DESIGN.md from seeded/*/meta.json."""
import json, glob, os, re
HERE = os.path.dirname(os.path.dirname(os.path.abspath(__file__)))
rows = []
for f in sorted(glob.glob(os.path.join(HERE, "seeded", "*", "meta.json"))):
    m = json.load(open(f))
    others = [c for c in m["caught_by"] if c != m["breaks_property"]]
    rows.append("| %s | %s | %s | %s | %s |" % (m["id"], m["change"].replace("|", "\\|"), m["needs_to_manifest"].replace("|", "\\|"),
        ("**yes** (while it applied; retired after repair 29aafbd removed the hazard)" if m.get("retired") else "**yes**") if m["caught_by_target_check"] else ("not reported — by design, the statement leaves this case open (see below)" if m["id"] in ("C04-E", "C14-D", "C13-K", "C17-AE") else "**NO**"), "not run" if m.get("checks_run", "").startswith("waves 11-1") and m["id"] != "C11-N" else (", ".join(others) if others else "–")))
table = "| id | change | needs | caught by the quick check of its own property | other quick checks that also alarm |\n|---|---|---|---|---|\n" + "\n".join(rows) + "\n"
p = os.path.join(HERE, "DESIGN.md")
s = open(p).read()
a = s.index("<!-- SEEDED-MATRIX-BEGIN -->") + len("<!-- SEEDED-MATRIX-BEGIN -->")
b = s.index("<!-- SEEDED-MATRIX-END -->")
s = s[:a] + "\n" + table + s[b:]
open(p, "w").write(s)
print(len(rows), "rows")
