#!/usr/bin/env python3
"""Writes /verif/seeded/<id>/meta.json from the table below plus the caught_by.txt produced by tools/matrix.sh."""
import json, os, re
HERE = os.path.dirname(os.path.dirname(os.path.abspath(__file__)))
T = {
 "C01-A": ("C01", "alu.rs: ADC adds the carry-in to operand B with a wrapping add first; the carry-out is lost when Rs == 0xFF and the carry flag is set (256 of 131 072 ADC cases; result byte, Z, N stay right)", "ADC/RLC with Rs = 0xFF and carry-in set"),
 "C01-B": ("C01", "raw/mod.rs: the flag commit rewrites the whole flag register from Register::flags(), which only carries the low nibble: every flag-updating instruction clears FR bits 4..7", "upper FR bits set by an earlier EI / LDFR / POPF / RETI (or hostile initial FR), then any flag-updating instruction, then PUSHF or an interrupt entry makes it visible"),
 "C04-A": ("C04", "signals.rs: interrupt_logic_1 drops the mac0() term, so conditional branch words of MUL and DIV clear a latched key interrupt before it is sampled", "key pressed while a MUL is looping or in the 3 cycles around the fetch of a DIV"),
 "C04-B": ("C04", "control store: MCHFLG set in the `int:` word of the ADD page: an interrupt taken right after ADD overwrites the flags with those of 'TST R0' before they are pushed", "interrupt entry directly after an ADD whose flags matter later (carry chain)"),
 "C05-A": ("C05", "raw/mod.rs: is_stackpointer_valid refactored into a guard-band table; *STACKSIZE 0 returns true before the SP < 0xF0 test", "stack size 0 and SP >= 0xF0 (LDSP 0xF0.., POP/RET on the empty stack)"),
 "C05-B": ("C05", "raw/mod.rs: a key press with key-edge enable and IE set puts a Stopped machine back into Running", "machine regularly stopped, MICR bit 0 and IE set, then a key interrupt"),
 "C07-A": ("C07", "bus.rs: board.master_reset() moved from Bus::master_reset into Bus::cpu_reset: a CPU reset wipes the board outputs, a master reset no longer does", "a program wrote F0/F1/F2, then a CPU reset (or master reset / load)"),
 "C07-B": ("C07", "machine/mod.rs: Machine::load zero-fills image_end..0xEF exclusive: RAM cell 0xEF is not cleared on load", "history left 0xEF non-zero (store to 0xEF or a 0xF0-byte image), then load; shows when the follow-up program reads 0xEF"),
 "C09-A": ("C09", "control store: one next-address bit flipped in the divide-by-zero word of DIV: lands on an all-zero word and cycles 0 -> 5 -> 14 -> 0 forever", "DIV Rd,Rs with Rs == 0"),
 "C09-B": ("C09", "control store: the `int:` word at the end of SUB no longer resets the instruction register (MAC 0110 -> 0100): dispatch lands in a self-looping unknown-opcode word", "SUB with IE set and an interrupt pending at its final check"),
 "C10-A": ("C10", "bus.rs: read(0xF3) returns the interrupt *control* register (DAICR) instead of the status register (DAISR)", "a write of 0b11xx_xxxx with non-zero low bits to 0xF2, then a read of 0xF3"),
 "C10-B": ("C10", "bus.rs: write(0xF9) uses MICR::from_bits(byte).unwrap_or(empty): any byte with bit 6 or 7 set clears the whole enable mask", "write 0xF9 with a byte >= 0x40 whose bit 0 is set (direct or by the CPU)"),
 "C11-A": ("C11", "machine/mod.rs: MAX_CLOCK_EDGES_PER_ASSEMBLY_STEP lowered to 512: the step returns in the middle of a long DIV", "assembly step over a DIV with quotient >= 253 (>= 248 with an interrupt entry riding on the step)"),
 "C11-B": ("C11", "machine/mod.rs: the two stepping loops merged into one with a `started` flag: a step issued one effective edge before a boundary runs through the whole next instruction as well", "step right after load / reset, after STOP + CONTINUE, or switching Real -> Assembly on the last word of an instruction"),
 "C12-A": ("C12", "runner/mod.rs (lib): schedules turned into sorted peekable queues that consume one entry per cycle: a cycle listed twice sticks at the head and every later interrupt/reset of that list is dropped", "duplicate schedule entry followed by a later effective entry in the same list"),
 "C12-B": ("C12", "args.rs (binary): parse_u8_auto_radix tries decimal, then hex, then binary: `0b1` / `0b0` are read as hex (177 / 176)", "a byte flag spelled exactly 0b1 or 0b0 (or bare hex digits)"),
 "C13-A": ("C13", "bus.rs: interrupt timer implemented a bit further: tick() computes counter % period() without guarding a zero period", "write 1xx1xxxx to 0xFD while div3 is still 0, then a clock edge"),
 "C13-B": ("C13", "raw/mod.rs: is_stackpointer_valid computes 0xEF - SP before testing SP < 0xF0: u8 subtraction overflow (builds with overflow checks)", "SP in 0xF0..0xFF at a register commit: PUSH/CALL/interrupt with SP = 0, LDSP 0xF0.., POP/RET at SP = 0xEF"),
 "C14-A": ("C14", "board.rs: update_comp2's rising-edge branch tests COMP_DAC1 instead of COMP_DAC2: misses real rising edges of comparator 2 while comparator 1 is high, raises spuriously while it is low", "interrupt source Comp2, rising polarity, and a particular level of comparator 1"),
 "C14-B": ("C14", "board.rs: set_analog_input2 clamps with f32::clamp: NaN is stored as NaN instead of 0 V", "a NaN voltage applied to analog input 2"),
 "C15-A": ("C15", "raw/mod.rs: read-side RAM/I-O comparison `<= 0xEF` -> `< 0xEF`: a pure read at exactly 0xEF loses its wait cycle", "a load or an instruction fetch at address 0xEF"),
 "C15-B": ("C15", "control store: next-address bit flipped in the MUL entry word for Rs = R2: the idempotent step 'MOV R6,Rs' runs twice, one extra cycle, results unchanged", "MUL Rd,R2"),
 "C17-A": ("C17", "tui/input/mod.rs: previous_completion uses idx.checked_sub(1).unwrap_or(len): BackTab from the first completion indexes one past the end", "`s` Tab BackTab, `l` Tab BackTab, `FC` Tab BackTab, or `load <path>` Tab BackTab"),
 "C01-C": ("C01", "raw/mod.rs write_to_memory: a 'skip redundant write' elision drops the bus write when the value equals what the same address reads in that cycle: stores to the write-only registers (0xFE/0xFF, board ports) are lost when the stored byte equals what a read of that address returns", "ST (0xFE/0xFF),Rn with the byte equal to the input register at that address (e.g. blanking an output with inputs 0), or a port write equal to the port's read value"),
 "C01-D": ("C01", "control store word 0x0B9: ALU function of the write-back step of BITS (Rd+),src changed from B to BH: that one destination mode keeps a previously set carry instead of clearing it", "BITS with destination (Rd+) executed with the carry flag set"),
 "C15-C": ("C15", "control store word 0x016: BUSEN set on the `MOV PC,2` step of the interrupt entry: a spurious read at the old PC, one extra wait per taken interrupt; architectural state unchanged", "a key interrupt actually taken while the interrupted PC is in RAM"),
 "C04-C": ("C04", "raw/mod.rs trigger_key_edge_interrupt: a press is only latched while MISR.KEY_INTERRUPT_PENDING is clear; that bit is cleared only by a RETI fetch, so after one press dropped with IE clear every later press is lost", "two presses: the first while the enable bit is set but IE is clear (between BITS (0xF9) and EI, or in a DI window), the second when fully enabled"),
 "C04-D": ("C04", "control store word 0x015 (second DI word of the interrupt entry): MALUIB cleared, computes FR & ~R0 instead of FR & 7: with R0 bit 3 clear the routine is entered with IE still set (and other flag bits wrong)", "interrupt entry while R0 has bit 3 clear; shows as nesting on a second press or in the flag register inside the routine"),
 "C05-C": ("C05", "raw/mod.rs apply_pending_register_writes refactored into a match: the arm for a flag write and a register write on the same edge omits the SP/PC supervision", "LDSP into a forbidden value, or arithmetic with PC as destination (flag + register write at the same edge)"),
 "C05-D": ("C05", "machine/mod.rs Machine::load: Programsize::NotSet shares the arm of Auto: *PROGRAMSIZE NOSET replaces the kept limit with the new program's byte count", "reload of a program that says *PROGRAMSIZE NOSET over a machine with a different limit"),
 "C07-C": ("C07", "raw/mod.rs cpu_reset resets the micro-sequencer only when the machine was Running: a machine error-stopped in the middle of an instruction keeps its stale micro-address through cpu_reset, master_reset and load", "reset of a machine that was error-stopped mid-instruction by the supervision (e.g. PUSH without LDSP)"),
 "C07-D": ("C07", "board.rs Board::master_reset clears ICR/UDR through their setters; set_icr also deletes the board's interrupt flip-flop (read at 0xF3)", "a board interrupt flip-flop set by an armed source and its input edge, then master_reset or load"),
 "C11-C": ("C11", "machine/mod.rs: the assembly step loop ends on `is_instruction_done() || (mac1 && mac2)`: with an interrupt taken after an instruction outside page 0 the step ends on the `int:` word, the entry becomes a step of its own", "assembly step while an enabled key interrupt is served after a non-page-0 instruction"),
 "C11-D": ("C11", "machine/mod.rs: trigger_key_continue also runs to the next boundary when it resumes a Stopped machine in Assembly step mode", "CONTINUE pressed on a stopped machine while the step mode is Assembly"),
 "C09-C": ("C09", "control store word 0x083 (trap of 0x4C-0x4F): MAC 0000 -> 0010 turns the self-loop into a branch on the ALU zero-out of R0: with R0 != 0 the undefined opcodes fall into TST and complete", "opcode 0x4C-0x4F executed with R0 != 0"),
 "C09-D": ("C09", "raw/mod.rs cpu_reset no longer resets the instruction register: a reset taken while a non-page-0 opcode is in flight starts the sequencer mid-routine (all-zero word after ADD/ADC, endless loop after DIV)", "cpu_reset / master_reset / load while the instruction register holds a non-page-0 opcode"),
 "C09-E": ("C09", "control store word 0x182 (DIV entry for source R2): NA0 cleared, the branch tests the carry-out of a B-pass (always 0): DIV Rd,R2 with R2 == 0 never takes the divide-by-zero exit and never terminates", "DIV Rd,R2 with R2 == 0"),
 "C10-C": ("C10", "bus.rs read(0xF9) returns the status register with the pending flags of MICR-masked sources removed: the write-only mask leaks into the status read", "key interrupt triggered while enabled, then 0xF9 rewritten with bit 0 clear, then a read of 0xF9"),
 "C10-D": ("C10", "bus.rs read(0xF1) blanks the UIO status bits of pins configured as outputs", "a UDR write and a UOR write for the same pin (either order), then a read of 0xF1"),
 "C14-C": ("C14", "board.rs set_temp re-evaluates comparator 2 only when temp >= analog input 2: the comparator bit and a falling Comp2 interrupt go stale", "new temperature < AI2 <= DAC2 < old temperature"),
 "C14-D": ("C14", "board.rs: a write to 0xF3 also clears the source flag when the ICR's EDGE bit is set", "ICR with EDGE and a source 1..6, the matching transition, then a write to 0xF3"),
 "C13-C": ("C13", "board.rs set_udr gained a warning that indexes uio_dir[source - 1]: index out of bounds for interrupt sources 4..7", "ICR write selecting source 4..7, later any UDR write"),
 "C12-C": ("C12", "runner/mod.rs (lib) RunExpectations::verify rewritten with early returns: a leftover `else` skips the FF expectation whenever an FE expectation is stated and matches", "verify with FE stated and matching and FF stated and mismatching"),
 "C12-D": ("C12", "emulator-2a/src/runner/mod.rs (binary): a filter 'drop events that can never fire' keeps cycle < N-1 instead of <=: a --reset/--interrupt scheduled for exactly the last budgeted cycle is dropped", "`--reset N-1` (or --interrupt) with a visible effect at the last cycle"),
 "C17-C": ("C17", "tui/input/mod.rs: Enter no longer records whitespace-only lines in the history, so handle_input re-executes the previous command line without a notification", "an effectful command, then a line of only blanks + Enter"),
 "C17-D": ("C17", "tui/program_help_sidebar/program_display.rs: scrolling fix `top + area_height - 1` underflows when the program pane has zero rows", "terminal height exactly 28 while the input starts with `set ` (14-line help page)"),
 "C17-E": ("C17", "tui/input/mod.rs: Up/Down folded into recall(); the None case clears the line but does not reset the cursor", "`x` Enter Up Down, then any character or Backspace"),
 "C17-F": ("C17", "tui/program_help_sidebar/program_display.rs: over-wide program lines are cut with a byte slice and end in an ellipsis: drawing panics when a multi-byte character of a loaded program line straddles the cut", "a loaded program with a non-ASCII character around byte 33 of a line (e.g. a comment starting `; Überlauf`)"),
 "C17-G": ("C17", "tui/notification.rs: notifications wrap long lines but the height limit counts text lines, not rows drawn: a very long notification runs past the buffer and panics", "a notification of about 1000+ characters at a small terminal, e.g. the parser error for a 1500-character faulty line after `load`"),
 "C17-H": ("C17", "tui/program_help_sidebar/mod.rs (SpacedStr): the gap is computed as width - left - right: subtraction overflow when the program file name is longer than 27 characters (builds with overflow checks)", "`load` of a path longer than the info pane allows"),
 "C17-I": ("C17", "tui/supervisor_wrapper.rs: `load PATH` re-applies the --fc/--fd/--fe/--ff values the session was started with after Machine::load", "a session started with non-zero input-register flags, then `load`"),
 "C12-E": ("C12", "runner/mod.rs (lib): the scheduled CPU reset is applied before the interrupt of the same cycle instead of after it", "one cycle in both the interrupt and the reset list while the key interrupt is enabled"),
 "C12-F": ("C12", "emulator-2a/src/runner/mod.rs (binary): expectations.verify(..)? now precedes print_run_results: a failing `run .. verify ..` exits 1 but prints no Cycles/State/FE/FF", "a run whose verification fails"),
 "C01-E": ("C01", "control store word 0x047 (CALL's INC PC): MAC1 set, the next micro-address depends on the carry of PC+1: a CALL whose operand byte sits at 0xFF (PC wraps to 0x00) skips the push of the return address", "CALL located at 0xFE/0xFF, i.e. executed from the input registers"),
 "C01-F": ("C01", "control store word 0x055 (post-increment of CMP's (Rd+) / ((Rd+)) destination): MAC1 set: when the pointer register wraps 0xFF -> 0x00 the COM step is skipped and the flags are those of dst+src+1", "CMP with destination (Rd+) or ((Rd+)) and Rd = 0xFF"),
 "C15-D": ("C15", "raw/mod.rs write_to_memory: wait condition `<= 0xF0` instead of `<= 0xEF`: a store to exactly 0xF0 costs one extra clock edge", "a store to address 0xF0"),
 "C09-F": ("C09", "control store word 0x0AA (write-back of DEC ((Rd+)), opcodes 0x5C-0x5F): NA2 flipped: the sequencer runs through the unprogrammed word 0x0AF into the DEC Rd word and still completes", "opcode 0x5C-0x5F (not emitted by the assembler)"),
 "C04-E": ("C04", "signals.rs interrupt_logic_1: the key flip-flop is cleared only when IE is also set: a press sampled while IE is clear (inside the routine, during the entry, in a DI section) survives and is taken after RETI / EI", "a press while IE is clear — the statement says nothing about whether such a press is held or forgotten (DESIGN.md section 6, C04): NOT a violation as the property is read here, and by design not reported"),
 "C04-F": ("C04", "bus.rs is_key_edge_int_enabled tests micr == KEY_EDGE instead of contains: key presses are ignored when any other mask bit is set alongside bit 0", "the program enables the key with a value like 0x03 or 0x11 instead of 0x01"),
 "C05-E": ("C05", "raw/mod.rs is_program_counter_valid: `pc < n.saturating_add(1)`: identical for limits 0..254, but with *PROGRAMSIZE 255 the machine error-stops when PC becomes 0xFF", "limit 255 and PC reaching 0xFF"),
 "C05-F": ("C05", "raw/mod.rs is_stackpointer_valid computed from the stack size with the lower band edge off by one: SP = 0xD1/0xC1/0xB1/0xA1 stays Running inside the forbidden band", "LDSP to exactly the lowest byte of the band, or POP/RET from below"),
 "C07-E": ("C07", "machine/mod.rs Machine::load: cpu_reset() at the end instead of master_reset() at the start: input registers, timer configuration and board outputs survive a load", "non-zero input registers / board outputs / timer before a load"),
 "C07-F": ("C07", "board.rs Board::master_reset also removes the status level bit of every UIO pin configured as output", "a UDR write making a pin an output, the pin driven high, then master_reset or load"),
 "C11-E": ("C11", "machine/mod.rs: the assembly step does two fixed edges when resting on a boundary and then a do-while: one edge too many when the step is issued exactly on the memory-wait edge of a fetch or when opcodes come from 0xF0-0xFF", "step issued on the wait edge of a fetch, or code executing from the I/O page"),
 "C13-D": ("C13", "raw/mod.rs apply_pending_register_writes: unreachable!() when a flag update and a write to R4 coincide — the last micro word of LDFR", "executing any LDFR"),
 "C10-E": ("C10", "bus.rs: while the interrupt timer is enabled, write(0xFC, v) also overwrites input register FC", "write 0b1001_xxxx to 0xFD, then write 0xFC, then read 0xFC"),
 "C10-F": ("C10", "bus.rs Bus::read rewritten as a match whose default arm is RAM (ram[addr % RAM_SIZE]); the arm for 0xF8 was dropped: read(0xF8) returns RAM cell 0x08", "non-zero RAM[0x08], then a read of 0xF8"),
 "C10-G": ("C10", "bus.rs read(0xFA) returns uart_send instead of uart_recv: a byte written to the UART transmit register leaks into the receive side", "write 0xFA, then read 0xFA"),
 "C14-E": ("C14", "board.rs: comparators compare against the stored DAC voltage; set_digital_output2 stores it after update_comp2(): a DAC2 write moves comparator 2 (and its edge interrupt) only on the next event", "a write to 0xF1 that should move comparator 2 (non-zero AI2/temperature)"),
 "C14-F": ("C14", "board.rs: the three UIO setters folded into one helper where the direction check guards only the status-bit update: an external change on an output-configured pin still raises the interrupt flip-flop when that pin is the selected source", "UIO pin configured as output and selected as interrupt source, then an external change with the configured polarity"),
 "C14-G": ("C14", "board.rs set_jumper1 condensed to `changed && (falling || !FALLING)`: pulling jumper 1 raises the interrupt even when the rising edge is configured", "source Jumper1, rising polarity, jumper 1 plugged, then unplugged"),
 "C17-B": ("C17", "tui/input/parser.rs: nr_bin folds bits with shifts instead of from_str_radix: a 0b literal with more than 8 significant bits is truncated mod 256 instead of rejected", "`FC = 0b100000000`, `set IRG = 0b111111111`"),
 # ---- wave 4 (blind: the agents saw the property text and the list of earlier changes only) ----
 "C04-G": ("C04", "signals.rs: the key flip-flop reaches the interrupt logic only while MICR bit 0 is set: a press latched while enabled is neither taken nor cleared if the program masks the key before the instruction ends", "key pressed during the instruction that clears the enable bit (store to 0xF9), before the store takes effect"),
 "C04-H": ("C04", "raw/mod.rs: the 'RETI detected' branch (raw compare of the loaded opcode byte with 0x2C) also releases the key flip-flop: a press during the first cycles of CMP ((R0+)),src (second byte 0x2C) or in the fetch window of a RETI is lost", "press inside the fetch of an opcode byte 0x2C with enable and IE set"),
 "C05-G": ("C05", "raw/mod.rs: PC supervision moved from every register write to the opcode fetch: a RET/RETI to an address beyond the program, or *PROGRAMSIZE cutting an instruction at its address byte, keeps the machine Running for some edges", "return to an address above the limit, or a limit inside a multi-byte instruction"),
 "C07-G": ("C07", "machine/mod.rs: Machine::cpu_reset in Assembly step mode also issues the reset cycle up to the first boundary: not the power-on state", "cpu_reset while the step mode is Assembly"),
 "C07-H": ("C07", "machine/mod.rs: load = cpu_reset() + Bus::new(): wipes the board's physical inputs (input port, temperature, analog inputs, jumpers, UIO levels, DAISR) and the MISR", "non-default physical board inputs, then load"),
 "C11-F": ("C11", "machine/mod.rs: an assembly step that uses up its 4096-edge budget sets the machine to ErrorStopped", "one of the 20 undefined opcodes in Assembly mode"),
 "C10-H": ("C10", "bus.rs: write(0xF9) ORs the byte into the enable mask instead of replacing it", "two writes to 0xF9, the second lacking a bit of the first"),
 "C10-I": ("C10", "bus.rs: read(0xF4)/read(0xF5) return the board output registers written at 0xF0/0xF1", "non-zero write to 0xF0 or 0xF1, then a read of 0xF4 / 0xF5"),
 "C14-H": ("C14", "board.rs: comparators compare input*100 > byte instead of input > byte/100: rounding differs exactly at / one ulp above the DAC voltage for 17 + 27 particular bytes", "input voltage within an ulp of byte/100 for one of the affected bytes"),
 "C14-I": ("C14", "board.rs set_icr: a write whose six configuration bits equal the current ICR is skipped as a whole: the interrupt flip-flop of an earlier edge survives", "ICR written, edge latched, the same ICR value written again"),
 "C14-J": ("C14", "board.rs: set_jumper1/2 folded into one helper that does not check which jumper moved: jumper 2 raises the interrupt when jumper 1 is the selected source", "source = Jumper1 and a change of jumper 2 in the configured direction"),
 "C13-E": ("C13", "board.rs: DAICR::interrupt_source masks the raw register with 0b1111 (includes FALLING) and expect()s from_u8: panic at the next board event once the ICR has bit 3 set", "ICR with the falling-edge bit, then any board event"),
 "C12-G": ("C12", "runner/mod.rs (lib): the early-exit test moved before the clock edge: the events scheduled for the cycle right after the halting edge are still applied", "an interrupt or reset scheduled for exactly the cycle equal to the reported cycle count of a halting program"),
 "C12-H": ("C12", "emulator-2a/src/runner/mod.rs (binary): --interrupt cycles that also appear in --reset are filtered out before the RunnerConfig is built", "the same cycle in both lists and a program whose outputs depend on the MISR (0xF9)"),
 "C17-J": ("C17", "tui/mod.rs: `next N` clocks the raw machine and ignores the step mode", "CTRL+W (Assembly step mode), then `next N`"),
 "C17-K": ("C17", "tui/input/parser.rs: nr_hex takes at most two hex digits: zero-padded hex values <= 255 (0x0FF) are rejected", "a byte value in hex with three or more digits"),
 "C17-L": ("C17", "tui/input/mod.rs: the input field advances by display width while truncation still counts characters: subtraction overflow in the draw call", "20 or more double-width characters (at 76 columns) in the input field"),
 "C17-M": ("C17", "tui/supervisor_wrapper.rs: new inherent MachineState::trigger_key_interrupt forwards only while Running: CTRL+E on a halted machine is swallowed", "CTRL+E while the machine is Stopped / ErrorStopped"),
}
for sid, (prop, what, needs) in sorted(T.items()):
    d = os.path.join(HERE, "seeded", sid)
    caught, missed = [], []
    p = os.path.join(d, "caught_by.txt")
    details = {}
    if os.path.exists(p):
        for l in open(p):
            m = re.match(r"(C\d\d): (CAUGHT|miss|rc=\d+)(.*)", l)
            if not m: continue
            if m.group(2) == "CAUGHT":
                caught.append(m.group(1)); details[m.group(1)] = m.group(3).strip()[:200]
            elif m.group(2) == "miss": missed.append(m.group(1))
    demo = [f for f in ("demo.rs", "demo.sh", "demo.diff") if os.path.exists(os.path.join(d, f))]
    meta = {
        "id": sid, "breaks_property": prop, "change": what, "needs_to_manifest": needs,
        "origin": "written by a fresh sub-agent that saw only the property text and its own scratch worktree of /repo (nothing from /verif)",
        "files": ["patch.diff"] + demo + (["notes.md"] if os.path.exists(os.path.join(d, "notes.md")) else []),
        "confirmed_by_me": {
            "how": "tools/confirm_seeded.sh in a scratch worktree /tmp/wt/confirm of /repo HEAD (removed afterwards): git apply patch; cargo test --workspace --offline; run the demonstration with the change; git checkout; run it without",
            "existing_suite_with_change": "passes (122 unit tests + 31 doc tests)",
            "demonstration_with_change": "fails",
            "demonstration_without_change": "passes",
        },
        "checks_run": "tools/seeded.sh (git -C /repo apply, all twelve ./check <ID> quick, git -C /repo checkout -- .)",
        "caught_by_target_check": prop in caught,
        "caught_by": caught, "not_alarmed": missed, "first_violation": details,
    }
    json.dump(meta, open(os.path.join(d, "meta.json"), "w"), indent=1)
    print(sid, prop, "caught_by", caught)
