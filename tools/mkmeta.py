#!/usr/bin/env python3
"""Writes /verif/seeded/<id>/meta.json from the table below plus the caught_by.txt produced by tools/matrix.sh."""
import json, os, re
HERE = os.path.dirname(os.path.dirname(os.path.abspath(__file__)))
T = {
 "C01-A": ("C01", "alu.rs: ADC adds the carry-in to operand B with a wrapping add first; the carry-out is lost when Rs == 0xFF and the carry flag is set (256 of 131 072 ADC cases; result byte, Z, N stay right)", "ADC/RLC with Rs = 0xFF and carry-in set"),
 "C01-B": ("C01", "raw/mod.rs: the flag commit rewrites the whole flag register from Register::flags(), which only carries the low nibble: every flag-updating instruction clears FR bits 4..7", "upper FR bits set by an earlier EI / LDFR / POPF / RETI (or hostile initial FR), then any flag-updating instruction, then PUSHF or an interrupt entry makes it visible"),
 "C04-A": ("C04", "signals.rs: interrupt_logic_1 drops the mac0() term, so conditional branch words of MUL and DIV clear a latched key interrupt before it is sampled", "key pressed while a MUL is looping or in the 3 cycles around the fetch of a DIV"),
 "C04-B": ("C04", "control store: MCHFLG set in the `int:` word of the ADD page: an interrupt taken right after ADD overwrites the flags with those of 'TST R0' before they are pushed", "interrupt entry directly after an ADD whose flags matter later (carry chain)"),
 "C05-A": ("C05", "raw/mod.rs: is_stackpointer_valid refactored into a guard-band table; *STACKSIZE 0 returns true before the SP < 0xF0 test", "stack size 0 and SP >= 0xF0 (LDSP 0xF0.., POP/RET on the empty stack)"),
 "C05-B": ("C05", "raw/mod.rs: a key press with key-edge enable and IE set puts a Stopped machine back into Running", "machine regularly stopped, MICR bit 0 and IE set, then a key interrupt"),
 "C07-A": ("C07", "bus.rs: board.master_reset() moved from Bus::master_reset into Bus::cpu_reset: a CPU reset wipes the board outputs, a master reset no longer does", "a program wrote F0/F1/F2, then a CPU reset (or master reset / load)"),
 "C07-B": ("C07", "machine/mod.rs: Machine::load zero-fills image_end..0xEF exclusive: RAM cell 0xEF is not cleared on load", "history left 0xEF non-zero (store to 0xEF or a 0xF0-byte image), then load; shows when the follow-up program reads 0xEF"),
 "C09-A": ("C09", "control store: one next-address bit flipped in the divide-by-zero word of DIV: lands on an all-zero word and cycles 0 -> 5 -> 14 -> 0 forever", "DIV Rd,Rs with Rs == 0"),
 "C09-B": ("C09", "control store: the `int:` word at the end of SUB no longer resets the instruction register (MAC 0110 -> 0100): dispatch lands in a self-looping unknown-opcode word", "SUB with IE set and an interrupt pending at its final check"),
 "C10-A": ("C10", "bus.rs: read(0xF3) returns the interrupt *control* register (DAICR) instead of the status register (DAISR)", "a write of 0b11xx_xxxx with non-zero low bits to 0xF2, then a read of 0xF3"),
 "C10-B": ("C10", "bus.rs: write(0xF9) uses MICR::from_bits(byte).unwrap_or(empty): any byte with bit 6 or 7 set clears the whole enable mask", "write 0xF9 with a byte >= 0x40 whose bit 0 is set (direct or by the CPU)"),
 "C11-A": ("C11", "machine/mod.rs: MAX_CLOCK_EDGES_PER_ASSEMBLY_STEP lowered to 512: the step returns in the middle of a long DIV", "assembly step over a DIV with quotient >= 253 (>= 248 with an interrupt entry riding on the step)"),
 "C11-B": ("C11", "machine/mod.rs: the two stepping loops merged into one with a `started` flag: a step issued one effective edge before a boundary runs through the whole next instruction as well", "step right after load / reset, after STOP + CONTINUE, or switching Real -> Assembly on the last word of an instruction"),
 "C12-A": ("C12", "runner/mod.rs (lib): schedules turned into sorted peekable queues that consume one entry per cycle: a cycle listed twice sticks at the head and every later interrupt/reset of that list is dropped", "duplicate schedule entry followed by a later effective entry in the same list"),
 "C12-B": ("C12", "args.rs (binary): parse_u8_auto_radix tries decimal, then hex, then binary: `0b1` / `0b0` are read as hex (177 / 176)", "a byte flag spelled exactly 0b1 or 0b0 (or bare hex digits)"),
 "C13-A": ("C13", "bus.rs: interrupt timer implemented a bit further: tick() computes counter % period() without guarding a zero period", "write 1xx1xxxx to 0xFD while div3 is still 0, then a clock edge"),
 "C13-B": ("C13", "raw/mod.rs: is_stackpointer_valid computes 0xEF - SP before testing SP < 0xF0: u8 subtraction overflow (builds with overflow checks)", "SP in 0xF0..0xFF at a register commit: PUSH/CALL/interrupt with SP = 0, LDSP 0xF0.., POP/RET at SP = 0xEF"),
 "C14-A": ("C14", "board.rs: update_comp2's rising-edge branch tests COMP_DAC1 instead of COMP_DAC2: misses real rising edges of comparator 2 while comparator 1 is high, raises spuriously while it is low", "interrupt source Comp2, rising polarity, and a particular level of comparator 1"),
 "C14-B": ("C14", "board.rs: set_analog_input2 clamps with f32::clamp: NaN is stored as NaN instead of 0 V", "a NaN voltage applied to analog input 2"),
 "C15-A": ("C15", "raw/mod.rs: read-side RAM/I-O comparison `<= 0xEF` -> `< 0xEF`: a pure read at exactly 0xEF loses its wait cycle", "a load or an instruction fetch at address 0xEF"),
 "C15-B": ("C15", "control store: next-address bit flipped in the MUL entry word for Rs = R2: the idempotent step 'MOV R6,Rs' runs twice, one extra cycle, results unchanged", "MUL Rd,R2"),
 "C17-A": ("C17", "tui/input/mod.rs: previous_completion uses idx.checked_sub(1).unwrap_or(len): BackTab from the first completion indexes one past the end", "`s` Tab BackTab, `l` Tab BackTab, `FC` Tab BackTab, or `load <path>` Tab BackTab"),
 "C17-B": ("C17", "tui/input/parser.rs: nr_bin folds bits with shifts instead of from_str_radix: a 0b literal with more than 8 significant bits is truncated mod 256 instead of rejected", "`FC = 0b100000000`, `set IRG = 0b111111111`"),
}
for sid, (prop, what, needs) in sorted(T.items()):
    d = os.path.join(HERE, "seeded", sid)
    caught, missed = [], []
    p = os.path.join(d, "caught_by.txt")
    details = {}
    if os.path.exists(p):
        for l in open(p):
            m = re.match(r"(C\d\d): (CAUGHT|miss|rc=\d+)(.*)", l)
            if not m: continue
            if m.group(2) == "CAUGHT":
                caught.append(m.group(1)); details[m.group(1)] = m.group(3).strip()[:200]
            elif m.group(2) == "miss": missed.append(m.group(1))
    demo = [f for f in ("demo.rs", "demo.sh", "demo.diff") if os.path.exists(os.path.join(d, f))]
    meta = {
        "id": sid, "breaks_property": prop, "change": what, "needs_to_manifest": needs,
        "origin": "written by a fresh sub-agent that saw only the property text and its own scratch worktree of /repo (nothing from /verif)",
        "files": ["patch.diff"] + demo + (["notes.md"] if os.path.exists(os.path.join(d, "notes.md")) else []),
        "confirmed_by_me": {
            "how": "tools/confirm_seeded.sh in a scratch worktree /tmp/wt/confirm of /repo HEAD (removed afterwards): git apply patch; cargo test --workspace --offline; run the demonstration with the change; git checkout; run it without",
            "existing_suite_with_change": "passes (122 unit tests + 31 doc tests)",
            "demonstration_with_change": "fails",
            "demonstration_without_change": "passes",
        },
        "checks_run": "tools/seeded.sh (git -C /repo apply, all twelve ./check <ID> quick, git -C /repo checkout -- .)",
        "caught_by_target_check": prop in caught,
        "caught_by": caught, "not_alarmed": missed, "first_violation": details,
    }
    json.dump(meta, open(os.path.join(d, "meta.json"), "w"), indent=1)
    print(sid, prop, "caught_by", caught)
