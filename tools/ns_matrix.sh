#!/bin/bash
# usage: tools/ns_matrix.sh [-t] ID ...   (-t: only the target check of each change)
# Like tools/matrix2.sh but through tools/ns_seeded.sh (private mount namespace; /repo untouched).
cd /verif || exit 2
TARGET_ONLY=0; if [ "$1" = "-t" ]; then TARGET_ONLY=1; shift; fi
for id in "$@"; do
    d=seeded/$id
    if [ $TARGET_ONLY = 1 ]; then
        bash tools/ns_seeded.sh "$d/patch.diff" "${id%%-*}" 2>&1 | sed "s/^/$id -> /"
    else
        bash tools/ns_seeded.sh "$d/patch.diff" > "$d/caught_by.txt" 2>&1
        echo "$id: $(grep -c CAUGHT "$d/caught_by.txt") checks alarm: $(grep CAUGHT "$d/caught_by.txt" | cut -d: -f1 | tr '\n' ' ')"
    fi
done
