#!/bin/bash
# usage: tools/thorough_all.sh [ID ...] — runs the thorough tier of every check once (scratch VERIF_DIR), prints exit codes and wall time
IDS="${*:-C10 C14 C12 C11 C01 C15 C09 C05 C04 C07 C13 C17}"
HERE="$(cd "$(dirname "$0")/.." && pwd)"
SCR="$(mktemp -d /tmp/thorough.XXXXXX)"; mkdir -p "$SCR/sim"; ln -s "$HERE/sim/target-repo" "$SCR/sim/target-repo"
cp "$HERE/known_findings.json" "$SCR/"
for id in $IDS; do
  t0=$(date +%s)
  out="$(cd "$HERE" && VERIF_DIR="$SCR" ./check "$id" thorough 2>&1)"; rc=$?
  t1=$(date +%s)
  echo "== $id thorough rc=$rc wall=$((t1-t0))s"; echo "$out" | tail -3
  if [ $rc -ne 0 ]; then cp -r "$SCR/replays" "/tmp/thorough-replays-$id" 2>/dev/null; fi
  cp "$SCR/evidence/$id.json" "/tmp/thorough-evidence-$id.json" 2>/dev/null
done
rm -rf "$SCR"
