#!/bin/bash
# usage: tools/ns_shell.sh <patch.diff> '<shell command run in /verif inside the namespace>'
# Debug helper: like ns_seeded.sh, but runs an arbitrary command with the patched tree mounted over /repo.
set -u
PATCH="$(readlink -f "$1")"; shift
SLOT="${NS_SLOT:-0}"; BASE=/tmp/wt/ns-$SLOT; mkdir -p "$BASE"
if [ ! -d "$BASE/repo" ]; then git -C /repo worktree add --detach "$BASE/repo" HEAD >/dev/null 2>&1 || exit 2; fi
( cd "$BASE/repo" && git checkout -q --detach "$(git -C /repo rev-parse HEAD)" && git checkout -- . )
git -C "$BASE/repo" apply "$PATCH" || exit 2
mkdir -p "$BASE/verif"
rsync -a --delete --exclude 'sim/target/' --exclude 'sim/target-repo/' --exclude 'sim/sandbox/' --exclude '.git/' /verif/ "$BASE/verif/"
unshare -m bash -c "mount --bind '$BASE/repo' /repo && mount --bind '$BASE/verif' /verif || exit 2; cd /verif; $*"
( cd "$BASE/repo" && git checkout -- . )
