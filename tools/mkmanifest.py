#!/usr/bin/env python3
"""Writes /verif/MANIFEST.json. Edit the tables below, run, commit."""
import json, os, sys
HERE = os.path.dirname(os.path.dirname(os.path.abspath(__file__)))

NA = {
 "C02": "Translator::compile is a pure function Asm -> bytes: no schedule, clock, second party, fault or interleaving in the statement; deciding it is input enumeration, which is outside deterministic simulation (DESIGN.md section 6).",
 "C03": "AsmParser::parse(&str) is a pure function of one string (no streaming reader, I/O or state); deciding it is grammar-based fuzzing/enumeration, not simulation (DESIGN.md section 6).",
 "C06": "A pure pipeline text -> Asm -> ByteCode -> RAM; its crash paths are reached by choosing inputs, not interleavings or faults (DESIGN.md section 6).",
 "C08": "AluOutput::from_input is a stateless pure function of 21 input bits; settling it is exhaustive table enumeration with nothing to schedule or inject (DESIGN.md section 6). Its one known defect (ADDH) is caught and repaired through C01.",
 "C16": "parse o format on an AST is a pure function composition with no time, actor or fault; a round-trip property for a generator/fuzzer (DESIGN.md section 6).",
}

# property -> (level, technique, level text, level note, design ref)
CHECKS = {
 "C01": ("exploration", "deterministic simulation: seeded lock-step refinement of the real CPU against an instruction-level reference interpreter over generated histories, complete operand planes swept inside each sampled scenario",
         "Seeded search: every operand plane of the register/ALU/stack forms is swept completely after a seeded prologue with hostile scratch state, and seeded hazard-biased instruction sequences (self-modifying code, PC running into I/O, transparent stimuli at arbitrary clock edges) are compared with R-ISA at every instruction boundary. Evidence, not proof: memory-operand forms and histories are sampled.",
         "Trusted: the R-ISA reference (sim/src/isa.rs; P/D/G provenance per rule in DESIGN.md Appendix A), the harness encoder, the public getters of emulator-2a-lib.", "DESIGN.md 6 C01"),
 "C15": ("exploration", "deterministic simulation: simulated-time accounting, clock edges between instruction boundaries of the real machine compared with a cost model fed by the reference interpreter's access list",
         "Same workloads as C01 with the oracle switched to cycle counts: edges between consecutive instruction boundaries (and from boundary to halt) must equal steps + 1 + one wait per access at an address <= 0xEF, for every plane case (incl. all 65 536 MUL/DIV pairs) and every instruction of the sampled sequences, after arbitrary histories.",
         "Trusted: R-COST step table (golden, DESIGN.md section 4) and the wait rule stated independently of raw/mod.rs; architectural differences resynchronise silently (they are C01's business).", "DESIGN.md 6 C15"),
}

PENDING = {}

def main():
    checks = []
    for pid in sorted(CHECKS):
        level, tech, text, note, ref = CHECKS[pid]
        checks.append({
            "property_id": pid,
            "quick_cmd": "./check %s quick" % pid,
            "thorough_cmd": "./check %s thorough" % pid,
            "evidence_file": "evidence/%s.json" % pid,
            "replay_cmd_template": "./check --replay {path}",
            "engine": "simcheck",
            "level_claimed": {"category": level, "text": text, "design_ref": ref},
            "level_note": note,
            "technique": tech,
        })
    na = [{"property_id": k, "reason": v} for k, v in sorted(NA.items())]
    for k, v in sorted(PENDING.items()):
        na.append({"property_id": k, "reason": v})
    m = {
        "version": 1,
        "setup_cmd": "./check build",
        "hooks": {
            "guard": "verif-hooks",
            "enable": "cargo feature `verif-hooks`, declared add-only in /repo/emulator-2a/Cargo.toml; the harness crate /verif/sim declares a feature of the same name (on by default) and compiles the binary crate's modules through #[path] includes, so their cfg(feature = \"verif-hooks\") gates are evaluated against the harness's features",
            "baseline_off_cmd": "cd /repo && cargo nextest run --workspace --no-fail-fast --offline || cargo test --workspace --no-fail-fast --offline",
            "source_commits": HOOK_COMMITS,
            "add_only": True,
        },
        "engines": [{
            "name": "simcheck",
            "path": "sim/",
            "serves_properties": sorted(CHECKS),
            "kind_free_text": "deterministic discrete-event simulator over clock-edge time with seeded fault/stimulus injection; one Rust binary, depends on /repo/emulator-2a-lib by path and includes /repo/emulator-2a/src modules by #[path]",
        }],
        "checks": checks,
        "not_applicable": na,
        "notes": "Exit codes: 0 held, 1 violation (VIOLATION line with replay file), 2 harness error. VERIF_SEED selects the batch seed (default constant). Known findings: known_findings.json. See DESIGN.md.",
    }
    with open(os.path.join(HERE, "MANIFEST.json"), "w") as f:
        json.dump(m, f, indent=1)
        f.write("\n")

HOOK_COMMITS = []
if __name__ == "__main__":
    # pending properties: those of C01..C17 neither claimed nor not-applicable yet
    for i in range(1, 18):
        pid = "C%02d" % i
        if pid not in CHECKS and pid not in NA:
            PENDING[pid] = "claimed by DESIGN.md but its check is not built yet in this round; not claimed until the check exists"
    main()
