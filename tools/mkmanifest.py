#!/usr/bin/env python3
"""Writes /verif/MANIFEST.json. Edit the tables below, run, commit."""
import json, os, sys
HERE = os.path.dirname(os.path.dirname(os.path.abspath(__file__)))

NA = {
 "C02": "Translator::compile is a pure function Asm -> bytes: no schedule, clock, second party, fault or interleaving in the statement; deciding it is input enumeration, which is outside deterministic simulation (DESIGN.md section 6).",
 "C03": "AsmParser::parse(&str) is a pure function of one string (no streaming reader, I/O or state); deciding it is grammar-based fuzzing/enumeration, not simulation (DESIGN.md section 6).",
 "C06": "A pure pipeline text -> Asm -> ByteCode -> RAM; its crash paths are reached by choosing inputs, not interleavings or faults (DESIGN.md section 6).",
 "C08": "AluOutput::from_input is a stateless pure function of 21 input bits; settling it is exhaustive table enumeration with nothing to schedule or inject (DESIGN.md section 6). Its one known defect (ADDH) is caught and repaired through C01.",
 "C16": "parse o format on an AST is a pure function composition with no time, actor or fault; a round-trip property for a generator/fuzzer (DESIGN.md section 6).",
}

# property -> (level, technique, level text, level note, design ref)
CHECKS = {
 "C01": ("exploration", "deterministic simulation: seeded lock-step refinement of the real CPU against an instruction-level reference interpreter over generated histories, complete operand planes swept inside each sampled scenario",
         "Seeded search: every operand plane of the register/ALU/stack forms is swept completely after a seeded prologue with hostile scratch state, and seeded hazard-biased instruction sequences (self-modifying code, PC running into I/O, transparent stimuli at arbitrary clock edges) are compared with R-ISA at every instruction boundary. Evidence, not proof: memory-operand forms and histories are sampled.",
         "Trusted: the R-ISA reference (sim/src/isa.rs; P/D/G provenance per rule in DESIGN.md Appendix A), the harness encoder, the public getters of emulator-2a-lib.", "DESIGN.md 6 C01"),
 "C15": ("exploration", "deterministic simulation: simulated-time accounting, clock edges between instruction boundaries of the real machine compared with a cost model fed by the reference interpreter's access list",
         "Same workloads as C01 with the oracle switched to cycle counts: edges between consecutive instruction boundaries (and from boundary to halt) must equal steps + 1 + one wait per access at an address <= 0xEF, for every plane case (incl. all 65 536 MUL/DIV pairs) and every instruction of the sampled sequences, after arbitrary histories.",
         "Trusted: R-COST step table (golden, DESIGN.md section 4) and the wait rule stated independently of raw/mod.rs; architectural differences resynchronise silently (they are C01's business).", "DESIGN.md 6 C15"),
}

CHECKS.update({
 "C04": ("fault_enumeration", "deterministic simulation with fault-placement sweep: the asynchronous key press is injected at every clock edge 0..T of generated (main program, ISR) pairs, and at every ordered pair of edges in a seeded window, each run forked from a checkpoint of the uninterrupted run",
         "For each sampled program the trigger edge is swept completely (incl. memory waits, between compute and commit, inside MUL/DIV loops, CALL/RET, EI/DI/RETI, the entry sequence itself). Oracles: lock-step reference at every interrupt entry and RETI (pushed FR/PC, SP, IE cleared, PC=2, restored flags), ISR counter = predicted entries, exactly-once where enable bit and IE stay set, never when the enable bit is clear, and model-free transparency against the uninterrupted run.",
         "Trusted: R-ISA for entry/RETI; program-family invariants (typed balanced stack, ISR preserves registers). A press sampled while IE is clear is treated as unspecified (held or forgotten).", "DESIGN.md 6 C04"),
 "C05": ("exploration", "deterministic simulation: per-clock-edge invariant monitor over generated programs under injected stimuli, with a forked absorption test at every halted state",
         "Model-free monitor after every single clock edge: Running implies SP outside the forbidden band and PC <= limit; error stop exactly at the edge a committed register breaks a rule or 0x00 is loaded; regular stop exactly when 0x01 is loaded; no other transition. LDSP values, jump targets and NOP-sled lengths are swept completely around every limit; every halted state is forked and bombarded with clock edges (both modes), key presses, input/pin/voltage changes, CONTINUE and resets.",
         "Trusted: the harness's own supervision predicates (DESIGN.md Appendix A) and the public Signals/word() getters used to detect instruction-register loads.", "DESIGN.md 6 C05"),
 "C09": ("fault_enumeration", "deterministic simulation: every opcode form x flag state x key flip-flop executed on the real machine under a per-edge control-word monitor, with the cost model as bounded-liveness oracle",
         "All 4336 opcode forms (first byte, and second byte for 0xF0-0xFF) x 16 flag nibbles x key flip-flop set/clear x seeded data states run from an instruction boundary: no unprogrammed word is ever selected, every word belongs to the routine of the loaded opcode (or the interrupt-entry block), defined opcodes reach the next boundary in exactly R-COST edges, undefined first bytes never do and sit in a fixed point; a case that stops on a fetched STOP is resumed with CONTINUE and must run the routine of the fetched 0x01 whatever the instruction register holds. Not a graph construction: ALU-condition inputs are reached through data; probes report which conditional micro-branches went both ways.",
         "Trusted: hand-written routine membership table; R-COST. The abstract control space of the statement is sampled by execution, not enumerated.", "DESIGN.md 6 C09"),
 "C11": ("fault_enumeration", "deterministic simulation: the step-mode switch is injected at every clock edge of generated runs; an assembly-stepped fork is compared for full equality with a clock-stepped fork, and whole histories of one assembly-stepped machine with a clock-stepped shadow",
         "Model-free fork oracle at every edge (any instruction phase, wait pending, interrupt pending, halted): one/two/three assembly steps == single edges to the next boundary / halt / fixed point, in every field but the step mode; every opcode byte at PC (x every second byte) and all 65 536 DIV and MUL operand pairs are swept; a quarter of the sampled runs are histories in which ONE machine is assembly-stepped 20-180 times with stimuli between steps, next to a Real-mode shadow clocked to the next boundary per step, equal after every step and stimulus; at every fork point the TUI's real step-mode toggle handler is applied to a copy (once: only the mode changes; twice: identity); a step that does not return is caught by a wall-clock watchdog and reported with its scenario.",
         "Trusted: Machine::clone; PartialEq is expected to cover every field, the history mode additionally sees state that PartialEq leaves out through its behaviour on later steps; is_instruction_done() defines the boundary.", "DESIGN.md 6 C11"),
 "C13": ("fault_enumeration", "deterministic simulation with fault injection: seeded RAM images and dense stimulus schedules of every kind on arbitrary clock edges, every call wrapped in catch_unwind with overflow checks on",
         "Random and opcode-biased images x 5 stack sizes x limits x hostile registers under schedules of all stimulus kinds (key, continue, resets, reloads with generated images, input/pin changes, voltages from raw f32 bit patterns incl. NaN/inf/subnormal, direct bus reads/writes to every address, RAM bit flips, step-mode switches); after every stimulus all getters are read and the machine is stepped further.",
         "Trusted: a panic/overflow is the only failure notion; debug assertions are off as in the shipped release build.", "DESIGN.md 6 C13"),
 "C10": ("exploration", "deterministic simulation: two-party history (CPU-driven accesses and an outside caller's direct bus calls / setters, interleaved by the scheduler) against a map model, with the single-operation and write-pair planes swept completely",
         "Every address x every byte as a single write followed by purity-checked reads of all 256 addresses, every ordered pair of write addresses, and sampled histories mixing direct bus calls, CPU loads/stores through all four addressing modes to arbitrary addresses, input/board setters and key presses; RAM, input registers, output registers, key-enable bit and board ports compared with R-BUS after every operation; every read is cloned-before / compared-after.",
         "Trusted: R-BUS/R-BOARD models; values of 0xF2 and 0xF4-0xFB reads are not asserted (only purity and non-interference).", "DESIGN.md 6 C10"),
 "C14": ("exploration", "deterministic simulation: two-party history (program-side port writes, environment-side input changes with arbitrary f32 bit patterns) against a reference board model checked after every operation",
         "Sampled histories of port writes (direct and through running helper programs; every ICR source x polarity, UDR, UOR, 0xF3) interleaved with jumper/UIO/voltage/digital-input changes drawn from DAC grid points +-1 ulp, clamp edges and non-finite values; complete board status incl. interrupt flip-flop/source flag and fan period compared with R-BOARD after every operation; thorough sweeps all 2^32 bit patterns through each voltage setter.",
         "Trusted: R-BOARD written from the statement; DASR.FAN and DAISR bits 2-7 masked; UOR-on-input-pin effect and sticky source flag mirrored de facto; fan period within +-1 LSB.", "DESIGN.md 6 C14"),
 "C07": ("fault_enumeration", "deterministic simulation with crash/restart injection: each kind of reset is injected after every prefix of a seeded history and at every clock edge inside its bursts; durable state (RAM, physical board inputs) must survive, everything else must equal a machine constructed afresh",
         "Model-free: every prefix of each history x {cpu_reset, master_reset, load}: documented getters at power-on values; RAM/inputs/board/limits/step mode untouched as documented; full == against a machine built from Machine::new through public setters (covers every private field: pending writes, wait flag, micro-address, ALU latch, key flip-flop, timer); a reloaded machine runs cycle-for-cycle like Machine::new_with_program for a follow-up program. One run in forty sweeps a complete register-value plane instead: all 65 536 pairs of bytes in the UART control register and the interrupt mask under one UART data byte (all 256 within a quick run, i.e. all 2^24 triples), each followed by cpu_reset and master_reset.",
         "Trusted: Machine::clone/PartialEq; values written to the getter-less UART/timer registers are known only for direct writes (program-driven ones are detected on the bus and disable the constructed-equality oracle for that history).", "DESIGN.md 6 C07"),
 "C12": ("exploration", "deterministic simulation: schedules of injected key interrupts and CPU resets over a cycle budget plus file faults; the real runner (in-process) and the real CLI binary (subprocess: argv + file in, text + status out) against the loop the statement spells out",
         "In-process: RunnerConfig::run vs the stated loop on a second real Machine (full Machine equality and cycle count) for generated source programs x configurations x budgets {0, 1, small, halt time +-2, large} x interrupt/reset schedules with duplicates, cycle 0, beyond-the-end entries and same-cycle collisions; verify() for all 8 expectation subsets x matching / one mismatching value. Process: the real 2a-emulator built from the working tree, every byte flag in decimal/0x/0b, repeated --interrupt/--reset, verify sub-command, malformed values, missing file / directory / non-UTF-8 / syntax error / undefined label; printed Cycles/State/FE/FF and the exit status compared.",
         "Trusted: the stated loop as written in the harness; parser/translator/Machine are real components on both sides; only the subset of programs on which compile+load is total is generated.", "DESIGN.md 6 C12"),
 "C17": ("exploration", "deterministic simulation of the event-driven front end: scripted terminal events, terminal resizes, auto-run budgets and file faults driven through the real Tui headlessly (guarded hook), one frame per event",
         "A bounded-exhaustive part first (every sequence of 3 / 5 editing keys over a 14-key alphabet from four editor start states), then sampled sessions of 1-200 events and scripted families (more than 1 000 submitted lines, a large `next N`, a 4 000-digit value, repeated setters around loads) (ASCII, command fragments, complete generated command lines of every documented form with boundary values and malformed tokens, multi-byte characters, editing/history/completion keys, CTRL chords, unknown keys, mouse/resize events, resizes over 1x1..250x100, load targets with file faults): no panic in handle_event+draw; the rendered cursor stays inside the text; plainly typed text is what the field holds; every submitted line is classified by an independent recogniser of the documented commands and the session's machine must equal a twin on which the library call of the same name was made, or the line must be rejected with a notification and no effect; CTRL keys and empty-line Enter act as the library calls.",
         "Trusted: R-CMD recogniser written from README/property text; stubs: TestBackend, injected event queue, verif_frame instead of the loop shell of Tui::run (a change confined to that shell is not detected).", "DESIGN.md 6 C17"),
})

PENDING = {}

def main():
    checks = []
    for pid in sorted(CHECKS):
        level, tech, text, note, ref = CHECKS[pid]
        checks.append({
            "property_id": pid,
            "quick_cmd": "./check %s quick" % pid,
            "thorough_cmd": "./check %s thorough" % pid,
            "evidence_file": "evidence/%s.json" % pid,
            "replay_cmd_template": "./check --replay {path}",
            "engine": "simcheck",
            "level_claimed": {"category": level, "text": text, "design_ref": ref},
            "level_note": note,
            "technique": tech,
        })
    na = [{"property_id": k, "reason": v} for k, v in sorted(NA.items())]
    for k, v in sorted(PENDING.items()):
        na.append({"property_id": k, "reason": v})
    m = {
        "version": 1,
        "setup_cmd": "./check build",
        "hooks": {
            "guard": "verif-hooks",
            "enable": "cargo feature `verif-hooks`, declared add-only in /repo/emulator-2a/Cargo.toml; the harness crate /verif/sim declares a feature of the same name (on by default) and compiles the binary crate's modules through #[path] includes, so their cfg(feature = \"verif-hooks\") gates are evaluated against the harness's features",
            "baseline_off_cmd": "cd /repo && cargo nextest run --workspace --no-fail-fast --offline || cargo test --workspace --no-fail-fast --offline",
            "source_commits": HOOK_COMMITS,
            "add_only": True,
        },
        "engines": [{
            "name": "simcheck",
            "path": "sim/",
            "serves_properties": sorted(CHECKS),
            "kind_free_text": "deterministic discrete-event simulator over clock-edge time with seeded fault/stimulus injection; one Rust binary, depends on /repo/emulator-2a-lib by path and includes /repo/emulator-2a/src modules by #[path]",
        }],
        "checks": checks,
        "not_applicable": na,
        "notes": "Exit codes: 0 held, 1 violation (VIOLATION line with replay file), 2 harness error. VERIF_SEED selects the batch seed (default constant). Known findings: known_findings.json. See DESIGN.md.",
    }
    with open(os.path.join(HERE, "MANIFEST.json"), "w") as f:
        json.dump(m, f, indent=1)
        f.write("\n")

HOOK_COMMITS = ['7db1009653b6753213164481492033584a5cd6db']
if __name__ == "__main__":
    # pending properties: those of C01..C17 neither claimed nor not-applicable yet
    for i in range(1, 18):
        pid = "C%02d" % i
        if pid not in CHECKS and pid not in NA:
            PENDING[pid] = "claimed by DESIGN.md but its check is not built yet in this round; not claimed until the check exists"
    main()
