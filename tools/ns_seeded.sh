#!/bin/bash
# usage: tools/ns_seeded.sh <patch.diff> [ID ...]
# Same purpose as tools/seeded.sh, but leaves /repo and /verif alone: the patch is applied to a
# scratch worktree of /repo, and the checks run in a private mount namespace in which that worktree
# is bind-mounted over /repo and a scratch copy of /verif over /verif. Lets the seeded-change
# matrix run while a long multi-seed run is using the real /repo. Scratch lives under /tmp/wt/ns-<slot>
# (slot = $NS_SLOT, default 0) and is reused between calls for incremental builds; remove it with
#   git -C /repo worktree remove --force /tmp/wt/ns-<slot>/repo; rm -rf /tmp/wt/ns-<slot>
set -u
PATCH="$(readlink -f "$1")"; shift
IDS="${*:-C01 C04 C05 C07 C09 C10 C11 C12 C13 C14 C15 C17}"
SLOT="${NS_SLOT:-0}"
BASE=/tmp/wt/ns-$SLOT
mkdir -p "$BASE"
if [ ! -d "$BASE/repo" ]; then git -C /repo worktree add --detach "$BASE/repo" HEAD >/dev/null 2>&1 || exit 2; fi
( cd "$BASE/repo" && git checkout -q --detach "$(git -C /repo rev-parse HEAD)" && git checkout -- . && git clean -fdq emulator-2a-lib/tests 2>/dev/null )
if ! git -C "$BASE/repo" apply --check "$PATCH" 2>/dev/null; then echo "patch does not apply" >&2; exit 2; fi
git -C "$BASE/repo" apply "$PATCH"
# scratch copy of the committed+working /verif (sources only are synced; its own target dir is kept)
mkdir -p "$BASE/verif"
rsync -a --delete --exclude 'sim/target/' --exclude 'sim/target-repo/' --exclude 'replays/' --exclude 'sim/sandbox/' --exclude '.git/' /verif/ "$BASE/verif/"
rm -rf "$BASE/verif/replays"
unshare -m bash -c "
  mount --bind '$BASE/repo' /repo && mount --bind '$BASE/verif' /verif || exit 2
  cd /verif
  for id in $IDS; do
    out=\"\$(VERIF_HANG_S=\"\${VERIF_HANG_S:-10}\" timeout 900 ./check \"\$id\" quick 2>&1)\"; rc=\$?
    case \$rc in
        0) echo \"\$id: miss\" ;;
        1) echo \"\$id: CAUGHT \$(echo \"\$out\" | grep -m1 '^minimised\|^violation' | cut -c1-220)\" ;;
        *) echo \"\$id: rc=\$rc \$(echo \"\$out\" | grep -m1 'HARNESS\|error' | cut -c1-200)\" ;;
    esac
  done
"
( cd "$BASE/repo" && git checkout -- . )
