#!/bin/bash
# Re-derives which quick checks catch which seeded change: writes /verif/seeded/<id>/caught_by.txt
cd /verif || exit 2
for d in seeded/*/; do
    id=$(basename "$d")
    tools/seeded.sh "$d/patch.diff" > "$d/caught_by.txt" 2>&1
    echo "$id: $(grep -c CAUGHT "$d/caught_by.txt") checks alarm: $(grep CAUGHT "$d/caught_by.txt" | cut -d: -f1 | tr '\n' ' ')"
done
