#!/bin/bash
# usage: tools/confirm_seeded.sh <dir with patch.diff + demo.rs|demo.sh|demo.diff> 
# Independent confirmation of a seeded change in a scratch worktree (outside /repo and /verif):
# the patch applies, the workspace builds, the existing suite passes with it, the demonstration
# fails with it and passes without it.
set -u
D="$(readlink -f "$1")"
WT=/tmp/wt/confirm
if [ ! -d "$WT" ]; then git -C /repo worktree add --detach "$WT" HEAD >/dev/null 2>&1 || exit 2; fi
cd "$WT" || exit 2
git checkout -q --detach "$(git -C /repo rev-parse HEAD)" 2>/dev/null
git checkout -- . ; git clean -fdq emulator-2a-lib/tests emulator-2a/tests 2>/dev/null
run_demo() {
    if [ -f "$D/demo.rs" ]; then
        mkdir -p emulator-2a-lib/tests && cp "$D/demo.rs" emulator-2a-lib/tests/seeded_demo.rs
        cargo test --offline -p emulator-2a-lib --test seeded_demo >/tmp/wt/confirm-demo.log 2>&1; rc=$?
        rm -rf emulator-2a-lib/tests
        return $rc
    elif [ -f "$D/demo.diff" ]; then
        git apply "$D/demo.diff" || return 99
        cargo test --offline -p emulator-2a >/tmp/wt/confirm-demo.log 2>&1; rc=$?
        git apply -R "$D/demo.diff"
        return $rc
    elif [ -f "$D/demo.sh" ]; then
        sed "s#/tmp/wt/C[0-9]*#$WT#g" "$D/demo.sh" > /tmp/wt/confirm-demo.sh
        bash /tmp/wt/confirm-demo.sh >/tmp/wt/confirm-demo.log 2>&1; return $?
    fi
    return 98
}
git apply --check "$D/patch.diff" || { echo "RESULT patch-does-not-apply"; exit 1; }
git apply "$D/patch.diff"
cargo test --workspace --offline >/tmp/wt/confirm-suite.log 2>&1; suite=$?
passed=$(grep -E "^test result: ok" /tmp/wt/confirm-suite.log | awk '{s+=$4} END {print s}')
run_demo; with=$?
git checkout -- .
run_demo; without=$?
echo "RESULT suite_rc=$suite tests_passed=$passed demo_with_change_rc=$with demo_without_rc=$without"
if [ $suite -eq 0 ] && [ $with -ne 0 ] && [ $without -eq 0 ]; then echo CONFIRMED; else echo NOT-CONFIRMED; fi
