#!/bin/bash
# usage: tools/refresh_line.sh CHECK ID ...  — re-runs one check against seeded changes and replaces that check's line in caught_by.txt
cd /verif || exit 2
CHK=$1; shift
for id in "$@"; do
    d=seeded/$id
    new="$(bash tools/ns_seeded.sh "$d/patch.diff" "$CHK" 2>&1 | grep "^$CHK:")"
    [ -z "$new" ] && { echo "$id: no result"; continue; }
    grep -v "^$CHK:" "$d/caught_by.txt" > "$d/caught_by.txt.new"; echo "$new" >> "$d/caught_by.txt.new"; sort "$d/caught_by.txt.new" > "$d/caught_by.txt"; rm "$d/caught_by.txt.new"
    echo "$id: $new" | cut -c1-150
done
