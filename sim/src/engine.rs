//! Shared scenario type of the machine engine: a machine setup, an explicit list of
//! (edge, stimulus) events and an edge budget; plus its executor over `LockStep` and its shrinker.
use crate::driver::{mix, Ctx, Violation};
use crate::lockstep::{Compare, Event, LockStep};
use crate::sut::{Setup, Stim};
use serde::{Deserialize, Serialize};

#[derive(Clone, Debug, PartialEq, Serialize, Deserialize)]
pub struct SeqScn {
    pub setup: Setup,
    /// (number of edges issued before the stimulus is applied, stimulus); sorted by edge
    pub events: Vec<(u32, Stim)>,
    pub max_edges: u32,
}

#[derive(Clone, Copy)]
pub struct SeqCfg {
    pub prop: &'static str,
    pub compare: Compare,
    pub check_cost: bool,
    pub compare_board: bool,
    pub lenient: bool,
}

pub fn edge_of(detail: &str) -> Option<u32> {
    let i = detail.find("edge=")?;
    let rest = &detail[i + 5..];
    let n: String = rest.chars().take_while(|c| c.is_ascii_digit()).collect();
    n.parse().ok()
}

/// Run a sequence scenario in lock-step. `on_event` is called after every tick that produced an
/// event (boundary / halt / hang) for coverage accounting.
pub fn run_seq(
    scn: &SeqScn,
    cfg: SeqCfg,
    ctx: &mut Ctx,
    mut on_event: impl FnMut(&LockStep, &Event, &mut Ctx),
) -> Result<LockStep, Violation> {
    let mut ls = LockStep::new(cfg.prop, &scn.setup);
    ls.compare = cfg.compare;
    ls.check_cost = cfg.check_cost;
    ls.compare_board = cfg.compare_board;
    ls.lenient = cfg.lenient;
    let mut next_ev = 0usize;
    let mut deferred: Vec<Stim> = vec![];
    let mut t: u32 = 0;
    loop {
        // stimuli scheduled before edge t+1
        while next_ev < scn.events.len() && scn.events[next_ev].0 <= t {
            let s = &scn.events[next_ev].1;
            next_ev += 1;
            let applied = ls.stim(s)?;
            if applied {
                ctx.cov.fault(s.kind());
                stim_cov(&ls, s, ctx);
            } else {
                deferred.push(s.clone());
            }
        }
        if !deferred.is_empty() && ls.at_boundary() {
            for s in deferred.drain(..) {
                let applied = ls.stim(&s)?;
                debug_assert!(applied);
                ctx.cov.fault(s.kind());
                stim_cov(&ls, &s, ctx);
            }
        }
        if t >= scn.max_edges {
            break;
        }
        let before = ls.edge;
        let ev = ls.tick()?;
        t += 1;
        ctx.cov.sim_edges += (ls.edge - before).max(1) as u64;
        if ev != Event::None {
            on_event(&ls, &ev, ctx);
            if ctx.want_trace {
                let c = ls.sut.registers().content();
                let mut h = ls.edge as u64;
                for r in c.iter() {
                    h = mix(h, *r as u64);
                }
                ctx.tr(h);
            }
        }
        if ls.ended.is_some() && next_ev >= scn.events.len() {
            break;
        }
    }
    Ok(ls)
}

fn stim_cov(ls: &LockStep, s: &Stim, ctx: &mut Ctx) {
    // where did it land: instruction class in flight x edges since the last boundary (capped)
    let cls = ls.inflight_class() as u64;
    let off = ls.edges_since_boundary().clamp(0, 40) as u64;
    ctx.cov.set("stimulus-placement", mix(mix(s.kind_id(), cls), off));
}

/// Generic shrinker for sequence scenarios.
pub fn shrink_seq(scn: &SeqScn, v: &Violation) -> Vec<SeqScn> {
    let mut out: Vec<SeqScn> = vec![];
    // 1. stop right after the violating edge
    if let Some(e) = edge_of(&v.detail) {
        if e + 1 < scn.max_edges {
            let mut c = scn.clone();
            c.max_edges = e + 1;
            c.events.retain(|(t, _)| *t <= e + 1);
            out.push(c);
        }
    }
    // 2. stimuli: drop all, halves, singles
    let n = scn.events.len();
    if n > 0 {
        let mut c = scn.clone();
        c.events.clear();
        out.push(c);
        if n > 2 {
            let mut a = scn.clone();
            a.events.truncate(n / 2);
            out.push(a);
            let mut b = scn.clone();
            b.events.drain(..n / 2);
            out.push(b);
        }
        for i in 0..n.min(64) {
            let mut c = scn.clone();
            c.events.remove(i);
            out.push(c);
        }
        // 3. pull stimulus times toward 0
        for i in 0..n.min(32) {
            let t = scn.events[i].0;
            if t > 0 {
                for nt in [0, t / 2, t - 1] {
                    if nt < t {
                        let mut c = scn.clone();
                        c.events[i].0 = nt;
                        c.events.sort_by_key(|e| e.0);
                        out.push(c);
                    }
                }
            }
        }
    }
    // 4. hostile state
    if scn.setup.regs.is_some() {
        let mut c = scn.clone();
        c.setup.regs = None;
        out.push(c);
        let r = scn.setup.regs.unwrap();
        for i in 0..8 {
            if r[i] != 0 {
                let mut c = scn.clone();
                let mut rr = r;
                rr[i] = 0;
                c.setup.regs = Some(rr);
                out.push(c);
            }
        }
    }
    if scn.setup.inputs != [0; 4] {
        let mut c = scn.clone();
        c.setup.inputs = [0; 4];
        out.push(c);
    }
    if !scn.setup.pokes.is_empty() {
        let mut c = scn.clone();
        c.setup.pokes.clear();
        out.push(c);
    }
    // 5. program: fix the limit, cut the tail, NOP out windows, zero data
    let len = scn.setup.image.bytes.len();
    if scn.setup.image.limit.is_none() {
        let mut c = scn.clone();
        c.setup.image.limit = Some(scn.setup.image.effective_limit());
        out.push(c);
    } else {
        for cut in [len / 2, len * 3 / 4, len.saturating_sub(8), len.saturating_sub(1)] {
            if cut < len {
                let mut c = scn.clone();
                c.setup.image.bytes.truncate(cut);
                out.push(c);
            }
        }
        for w in [32usize, 8, 2, 1] {
            let mut i = 0;
            while i < len {
                let hi = (i + w).min(len);
                if scn.setup.image.bytes[i..hi].iter().any(|b| *b != 0x02 && *b != 0x00) {
                    let mut c = scn.clone();
                    for b in &mut c.setup.image.bytes[i..hi] {
                        *b = 0x02;
                    }
                    out.push(c);
                    if w <= 2 {
                        let mut c = scn.clone();
                        for b in &mut c.setup.image.bytes[i..hi] {
                            *b = 0x00;
                        }
                        out.push(c);
                    }
                }
                i += w;
            }
        }
    }
    out
}
