//! Glue to the system under test: building machines, applying stimuli, reading observables.
//! Everything here goes through the public API of `emulator-2a-lib` only.
use emulator_2a_lib::{
    compiler::ByteCode,
    machine::{Machine, MachineConfig, RegisterNumber, State, StepMode},
    parser::{Line, Programsize, Stacksize},
};
use serde::{Deserialize, Serialize};

pub const REGS: [RegisterNumber; 8] = [
    RegisterNumber::R0,
    RegisterNumber::R1,
    RegisterNumber::R2,
    RegisterNumber::R3,
    RegisterNumber::R4,
    RegisterNumber::R5,
    RegisterNumber::R6,
    RegisterNumber::R7,
];

pub fn stacksize_of(n: u8) -> Stacksize {
    match n {
        0 => Stacksize::_0,
        16 => Stacksize::_16,
        32 => Stacksize::_32,
        48 => Stacksize::_48,
        64 => Stacksize::_64,
        _ => Stacksize::NotSet,
    }
}

pub const STACK_SIZES: [u8; 5] = [0, 16, 32, 48, 64];

/// A program image plus the limits a `load` applies.
#[derive(Clone, Debug, PartialEq, Serialize, Deserialize)]
pub struct Image {
    pub bytes: Vec<u8>,
    /// 0,16,32,48,64; anything else = NOSET (keep)
    pub stack: u8,
    /// Some(n) = *PROGRAMSIZE n; None = AUTO (image length)
    pub limit: Option<u8>,
    /// *PROGRAMSIZE NOSET: the previous limit stays in force (`limit` is ignored)
    #[serde(default)]
    pub keep_limit: bool,
}

impl Image {
    pub fn bytecode(&self) -> ByteCode {
        ByteCode {
            lines: vec![(Line::Empty(None), self.bytes.clone())],
            stacksize: stacksize_of(self.stack),
            programsize: match (self.keep_limit, self.limit) {
                (true, _) => Programsize::NotSet,
                (false, Some(n)) => Programsize::Size(n),
                (false, None) => Programsize::Auto,
            },
        }
    }
    /// the PC limit this image states (for NOSET: see `limit_after`)
    pub fn effective_limit(&self) -> u8 {
        match self.limit {
            Some(n) => n,
            None => self.bytes.len().min(255) as u8,
        }
    }
    /// the PC limit in force after loading this image over a machine whose limit was `prev`
    pub fn limit_after(&self, prev: Option<u8>) -> Option<u8> {
        if self.keep_limit {
            prev
        } else {
            Some(self.effective_limit())
        }
    }
}

#[derive(Clone, Debug, PartialEq, Serialize, Deserialize)]
pub struct Setup {
    pub image: Image,
    /// hostile initial register contents R0..R7 (applied after load), if any
    pub regs: Option<[u8; 8]>,
    /// RAM bytes poked after load: (addr, value)
    #[serde(default)]
    pub pokes: Vec<(u8, u8)>,
    pub inputs: [u8; 4],
    pub asm_mode: bool,
}

impl Setup {
    pub fn plain(bytes: Vec<u8>, stack: u8, limit: Option<u8>) -> Self {
        Setup {
            image: Image { bytes, stack, limit, keep_limit: false },
            regs: None,
            pokes: vec![],
            inputs: [0; 4],
            asm_mode: false,
        }
    }
    pub fn build(&self) -> Machine {
        let mut m = Machine::new(MachineConfig::default());
        m.load(self.image.bytecode());
        for (a, v) in &self.pokes {
            if *a < 0xF0 {
                m.raw_mut().bus_mut().memory_mut()[*a as usize] = *v;
            }
        }
        if let Some(r) = self.regs {
            for i in 0..8 {
                m.raw_mut().registers_mut().set(REGS[i], r[i]);
            }
        }
        m.set_input_fc(self.inputs[0]);
        m.set_input_fd(self.inputs[1]);
        m.set_input_fe(self.inputs[2]);
        m.set_input_ff(self.inputs[3]);
        if self.asm_mode {
            m.set_step_mode(StepMode::Assembly);
        }
        m
    }
}

/// Outside stimuli (DESIGN.md section 3). Applied between clock edges.
#[derive(Clone, Debug, PartialEq, Serialize, Deserialize)]
pub enum Stim {
    KeyInt,
    Continue,
    CpuReset,
    MasterReset,
    Load(Image),
    /// true = Assembly, false = Real
    Mode(bool),
    /// input register FC+i
    InReg(u8, u8),
    Di(u8),
    Jumper(u8, bool),
    Uio(u8, bool),
    /// 0 = temp, 1 = analog input 1, 2 = analog input 2; f32 bit pattern
    Volt(u8, u32),
    BusWrite(u8, u8),
    BusRead(u8),
    /// flip one RAM bit
    Flip(u8, u8),
}

impl Stim {
    pub fn kind(&self) -> &'static str {
        match self {
            Stim::KeyInt => "K-INT",
            Stim::Continue => "CONT",
            Stim::CpuReset => "RST-CPU",
            Stim::MasterReset => "RST-MASTER",
            Stim::Load(_) => "RELOAD",
            Stim::Mode(_) => "MODE",
            Stim::InReg(..) => "IN-REG",
            Stim::Di(_) => "DI",
            Stim::Jumper(..) => "PIN-JUMPER",
            Stim::Uio(..) => "PIN-UIO",
            Stim::Volt(..) => "VOLT",
            Stim::BusWrite(..) => "BUSOP-WRITE",
            Stim::BusRead(_) => "BUSOP-READ",
            Stim::Flip(..) => "FLIP",
        }
    }
    pub fn kind_id(&self) -> u64 {
        match self {
            Stim::KeyInt => 1,
            Stim::Continue => 2,
            Stim::CpuReset => 3,
            Stim::MasterReset => 4,
            Stim::Load(_) => 5,
            Stim::Mode(_) => 6,
            Stim::InReg(..) => 7,
            Stim::Di(_) => 8,
            Stim::Jumper(..) => 9,
            Stim::Uio(..) => 10,
            Stim::Volt(..) => 11,
            Stim::BusWrite(..) => 12,
            Stim::BusRead(_) => 13,
            Stim::Flip(..) => 14,
        }
    }
    // (results of the calls are ignored: a tree may give any of these mutators a return value)
    pub fn apply(&self, m: &mut Machine) {
        match self {
            Stim::KeyInt => { let _ = m.trigger_key_interrupt(); }
            Stim::Continue => { let _ = m.trigger_key_continue(); }
            Stim::CpuReset => { let _ = m.cpu_reset(); }
            Stim::MasterReset => { let _ = m.master_reset(); }
            Stim::Load(img) => { let _ = m.load(img.bytecode()); }
            Stim::Mode(a) => { let _ = m.set_step_mode(if *a { StepMode::Assembly } else { StepMode::Real }); }
            Stim::InReg(i, v) => match i & 3 {
                0 => { let _ = m.set_input_fc(*v); }
                1 => { let _ = m.set_input_fd(*v); }
                2 => { let _ = m.set_input_fe(*v); }
                _ => { let _ = m.set_input_ff(*v); }
            },
            Stim::Di(v) => { let _ = m.set_digital_input1(*v); }
            Stim::Jumper(n, v) => {
                if *n == 1 {
                    let _ = m.set_jumper1(*v);
                } else {
                    let _ = m.set_jumper2(*v);
                }
            }
            Stim::Uio(n, v) => match n {
                1 => { let _ = m.set_universal_input_output1(*v); }
                2 => { let _ = m.set_universal_input_output2(*v); }
                _ => { let _ = m.set_universal_input_output3(*v); }
            },
            Stim::Volt(w, bits) => {
                let f = f32::from_bits(*bits);
                match w {
                    0 => { let _ = m.set_temp(f); }
                    1 => { let _ = m.set_analog_input1(f); }
                    _ => { let _ = m.set_analog_input2(f); }
                }
            }
            Stim::BusWrite(a, v) => { let _ = m.raw_mut().bus_mut().write(*a, *v); }
            Stim::BusRead(a) => {
                let _ = m.bus().read(*a);
            }
            Stim::Flip(a, bit) => {
                if *a < 0xF0 {
                    m.raw_mut().bus_mut().memory_mut()[*a as usize] ^= 1 << (bit & 7);
                }
            }
        }
    }
}

pub fn f32_class(bits: u32) -> &'static str {
    let f = f32::from_bits(bits);
    if f.is_nan() {
        "nan"
    } else if f.is_infinite() {
        if f > 0.0 {
            "+inf"
        } else {
            "-inf"
        }
    } else if f == 0.0 {
        if f.is_sign_negative() {
            "-0"
        } else {
            "+0"
        }
    } else if f.is_subnormal() {
        "subnormal"
    } else if f < 0.0 {
        "negative"
    } else if f <= 5.0 {
        "in-range"
    } else {
        "above-range"
    }
}

pub fn state_id(s: State) -> u8 {
    match s {
        State::Running => 0,
        State::Stopped => 1,
        State::ErrorStopped => 2,
    }
}

pub fn state_name(s: State) -> &'static str {
    match s {
        State::Running => "Running",
        State::Stopped => "Stopped",
        State::ErrorStopped => "ErrorStopped",
    }
}

/// Architectural snapshot used by several oracles.
#[derive(Clone, Debug, PartialEq)]
pub struct Obs {
    pub regs: [u8; 8],
    pub state: u8,
    pub fe: u8,
    pub ff: u8,
    pub ir: u8,
    pub done: bool,
}

pub fn observe(m: &Machine) -> Obs {
    Obs {
        regs: *m.registers().content(),
        state: state_id(m.state()),
        fe: m.bus().output_fe(),
        ff: m.bus().output_ff(),
        ir: m.word().bits(),
        done: m.is_instruction_done(),
    }
}

/// Read every public getter (the "state can be read" half of C13) and fold into a hash.
/// `{:?}` of the machine and its parts (Debug is derived / implemented by the tree): "whose state
/// can be read" includes printing it; only the length is kept (addresses, float noise)
pub fn debug_render(m: &Machine) -> u64 {
    let a = format!("{:?}", m);
    let b = format!("{:?}{:?}{:?}", m.bus(), m.bus().board(), m.registers());
    let c = format!("{:?}{:?}", m.signals(), m.state());
    (a.len() + b.len() + c.len()) as u64
}

pub fn read_everything(m: &Machine) -> u64 {
    use crate::driver::mix;
    let mut h = 0u64;
    for r in m.registers().content() {
        h = mix(h, *r as u64);
    }
    h = mix(h, m.registers().flags().bits() as u64);
    for b in m.bus().memory().iter() {
        h = mix(h, *b as u64);
    }
    for a in 0xF0..=0xFFu8 {
        h = mix(h, m.bus().read(a) as u64);
    }
    h = mix(h, m.bus().output_fe() as u64);
    h = mix(h, m.bus().output_ff() as u64);
    h = mix(h, m.bus().is_key_edge_int_enabled() as u64);
    h = mix(h, m.bus().is_timer_edge_int_enabled() as u64);
    let b = m.bus().board();
    h = mix(h, *b.digital_input1() as u64);
    h = mix(h, *b.digital_output1() as u64);
    h = mix(h, *b.digital_output2() as u64);
    h = mix(h, b.temp().to_bits() as u64);
    h = mix(h, b.dasr().bits() as u64);
    h = mix(h, b.daisr().bits() as u64);
    h = mix(h, b.daicr().bits() as u64);
    h = mix(h, b.daicr().interrupt_source() as u64);
    h = mix(h, b.analog_inputs()[0].to_bits() as u64);
    h = mix(h, b.analog_inputs()[1].to_bits() as u64);
    h = mix(h, b.analog_outputs()[0].to_bits() as u64);
    h = mix(h, b.analog_outputs()[1].to_bits() as u64);
    h = mix(h, *b.fan_rpm() as u64);
    h = mix(h, b.get_fan_period() as u64);
    for d in b.uio_dir() {
        h = mix(h, *d as u64);
    }
    h = mix(h, state_id(m.state()) as u64);
    h = mix(h, m.word().bits() as u64);
    h = mix(h, m.is_instruction_done() as u64);
    h = mix(h, m.is_stackpointer_valid() as u64);
    h = mix(h, m.is_program_counter_valid() as u64);
    h = mix(h, matches!(m.step_mode(), StepMode::Assembly) as u64);
    let s = m.signals();
    h = mix(h, s.next_microprogram_address() as u64);
    h = mix(h, s.alu_select() as u64);
    h = mix(h, s.selected_register_a() as u64);
    h = mix(h, s.selected_register_b() as u64);
    h = mix(h, s.selected_register_for_writing() as u64);
    h = mix(h, s.alu_input_b_constant() as u64);
    h = mix(h, control_word(m) as u64);
    h
}

/// Reconstruct the 28-bit control word currently selected, from the public `Signals`.
pub fn control_word(m: &Machine) -> u32 {
    let s = m.signals();
    let bits = [
        s.mac3(),
        s.mac2(),
        s.mac1(),
        s.mac0(),
        s.na4(),
        s.na3(),
        s.na2(),
        s.na1(),
        s.na0(),
        s.buswr(),
        s.busen(),
        s.mrgaa3(),
        s.mrgaa2(),
        s.mrgaa1(),
        s.mrgaa0(),
        s.mrgab3(),
        s.mrgab2(),
        s.mrgab1(),
        s.mrgab0(),
        s.mrgws(),
        s.mrgwe(),
        s.maluia(),
        s.maluib(),
        s.malus3(),
        s.malus2(),
        s.malus1(),
        s.malus0(),
        s.mchflg(),
    ];
    let mut w = 0u32;
    for b in bits.iter() {
        w = (w << 1) | (*b as u32);
    }
    w
}

/// Is the current control word one that loads the instruction register at the next executed edge
/// (MAC2 and MAC0 set, MAC1 clear)? True for the opcode fetch and the second-opcode fetch.
pub fn word_is_fetch(m: &Machine) -> bool {
    let s = m.signals();
    s.mac2() && s.mac0() && !s.mac1()
}
