//! Workload generators: the harness's own instruction encoder and program families.
//! Encodings follow DESIGN.md Appendix A; nothing here uses /repo's translator.
use crate::prng::Rng;
use crate::sut::{Image, Setup, STACK_SIZES};

#[derive(Clone, Copy, Debug, PartialEq)]
pub enum Src {
    R(u8),
    Ind(u8),
    IndInc(u8),
    IndInc2(u8),
    Imm(u8),
    Abs(u8),
}
#[derive(Clone, Copy, Debug, PartialEq)]
pub enum Dst {
    R(u8),
    Ind(u8),
    IndInc(u8),
    IndInc2(u8),
    Abs(u8),
}

pub const OP2_MOV: u8 = 0x10;
pub const OP2_CMP: u8 = 0x20;
pub const OP2_BITT: u8 = 0x30;
pub const OP2_BITS: u8 = 0x50;
pub const OP2_BITC: u8 = 0x60;

#[derive(Clone, Debug, Default)]
pub struct Prog {
    pub b: Vec<u8>,
}

impl Prog {
    pub fn new() -> Self {
        Prog { b: vec![] }
    }
    pub fn here(&self) -> u8 {
        self.b.len() as u8
    }
    pub fn len(&self) -> usize {
        self.b.len()
    }
    pub fn byte(&mut self, v: u8) -> &mut Self {
        self.b.push(v);
        self
    }
    pub fn org(&mut self, addr: usize) -> &mut Self {
        while self.b.len() < addr {
            self.b.push(0);
        }
        self
    }
    fn src(&mut self, s: Src) {
        match s {
            Src::R(r) => self.b.push(0xF0 | (r & 3)),
            Src::Ind(r) => self.b.push(0xF4 | (r & 3)),
            Src::IndInc(r) => self.b.push(0xF8 | (r & 3)),
            Src::IndInc2(r) => self.b.push(0xFC | (r & 3)),
            Src::Imm(k) => {
                self.b.push(0xFB);
                self.b.push(k)
            }
            Src::Abs(a) => {
                self.b.push(0xFF);
                self.b.push(a)
            }
        }
    }
    pub fn two(&mut self, base: u8, d: Dst, s: Src) -> &mut Self {
        self.src(s);
        match d {
            Dst::R(r) => self.b.push(base | (r & 3)),
            Dst::Ind(r) => self.b.push(base | 0x4 | (r & 3)),
            Dst::IndInc(r) => self.b.push(base | 0x8 | (r & 3)),
            Dst::IndInc2(r) => self.b.push(base | 0xC | (r & 3)),
            Dst::Abs(a) => {
                self.b.push(base | 0xF);
                self.b.push(a)
            }
        }
        self
    }
    pub fn mov(&mut self, d: Dst, s: Src) -> &mut Self {
        self.two(OP2_MOV, d, s)
    }
    pub fn ld_imm(&mut self, r: u8, k: u8) -> &mut Self {
        self.mov(Dst::R(r), Src::Imm(k))
    }
    pub fn st_abs(&mut self, a: u8, r: u8) -> &mut Self {
        self.mov(Dst::Abs(a), Src::R(r))
    }
    pub fn ld_abs(&mut self, r: u8, a: u8) -> &mut Self {
        self.mov(Dst::R(r), Src::Abs(a))
    }
    pub fn ldsp(&mut self, s: Src) -> &mut Self {
        self.src(s);
        self.b.push(0x40);
        self
    }
    pub fn ldfr(&mut self, s: Src) -> &mut Self {
        self.src(s);
        self.b.push(0x44);
        self
    }
    pub fn jmp(&mut self, a: u8) -> &mut Self {
        self.b.extend_from_slice(&[0xFB, a, 0x13]);
        self
    }
    /// relative jump with condition code c (0 always,1 C,2 Z,3 N,4 never,5 !C,6 !Z,7 !N) to absolute target
    pub fn jr_to(&mut self, c: u8, target: u8) -> &mut Self {
        let next = self.here().wrapping_add(2);
        self.b.push(0x20 | (c & 7));
        self.b.push(target.wrapping_sub(next));
        self
    }
    pub fn call(&mut self, a: u8) -> &mut Self {
        self.b.extend_from_slice(&[0x28, a]);
        self
    }
    pub fn stop(&mut self) -> &mut Self {
        self.byte(0x01)
    }
    pub fn nop(&mut self) -> &mut Self {
        self.byte(0x02)
    }
    pub fn ei(&mut self) -> &mut Self {
        self.byte(0x08)
    }
    pub fn di(&mut self) -> &mut Self {
        self.byte(0x0C)
    }
    pub fn ret(&mut self) -> &mut Self {
        self.byte(0x17)
    }
    pub fn reti(&mut self) -> &mut Self {
        self.byte(0x2C)
    }
    pub fn push(&mut self, r: u8) -> &mut Self {
        self.byte(0x10 | (r & 3))
    }
    pub fn pop(&mut self, r: u8) -> &mut Self {
        self.byte(0x14 | (r & 3))
    }
    pub fn pushf(&mut self) -> &mut Self {
        self.byte(0x18)
    }
    pub fn popf(&mut self) -> &mut Self {
        self.byte(0x1C)
    }
    pub fn alu(&mut self, base: u8, d: u8, s: u8) -> &mut Self {
        self.byte(base | ((s & 3) << 2) | (d & 3))
    }
    pub fn un(&mut self, base: u8, r: u8) -> &mut Self {
        self.byte(base | (r & 3))
    }
}

pub const ALU_BASES: [u8; 8] = [0x60, 0x70, 0x80, 0x90, 0xA0, 0xB0, 0xC0, 0xD0];
pub const UN_BASES: [u8; 9] = [0x04, 0x30, 0x34, 0x38, 0x3C, 0x40, 0x44, 0x48, 0x50];

/// every first byte the assembler can emit
pub fn emittable_first(b: u8) -> bool {
    match b {
        0x01 | 0x02 | 0x04..=0x07 | 0x08 | 0x0C | 0x10..=0x17 | 0x18 | 0x1C => true,
        0x20..=0x23 | 0x25..=0x27 | 0x28 | 0x2C => true,
        0x30..=0x4B | 0x50..=0x53 => true,
        0x60..=0xDF => true,
        0xF0..=0xFF => true,
        _ => false,
    }
}
/// every defined second byte of the two-byte group
pub fn defined_second(b: u8) -> bool {
    matches!(b, 0x10..=0x3F | 0x40..=0x47 | 0x50..=0x6F)
}
pub fn emittable_second(b: u8) -> bool {
    matches!(b, 0x10..=0x3F | 0x40 | 0x44 | 0x50..=0x6F)
}
/// first bytes that never complete
pub fn undefined_first(b: u8) -> bool {
    matches!(b, 0x4C..=0x4F | 0xE0..=0xEF)
}

pub fn uniform_image(rng: &mut Rng, len: usize) -> Vec<u8> {
    (0..len).map(|_| rng.u8()).collect()
}

fn io_heavy_addr(rng: &mut Rng) -> u8 {
    match rng.below(8) {
        0..=2 => 0xF0 + rng.below(16) as u8,
        3 => 0xE8 + rng.below(16) as u8,
        4 => *rng.pick(&[0x00u8, 0x01, 0x02, 0xEF, 0xF0, 0xFB, 0xFC, 0xFF, 0xEE, 0xD0, 0xD1, 0xDE, 0xDF]),
        _ => rng.u8(),
    }
}

/// Opcode-biased RAM image: every instruction slot holds a plausible instruction, operands lean
/// towards I/O addresses, and SP / PC get moved everywhere.
pub fn biased_image(rng: &mut Rng, len: usize) -> Vec<u8> {
    let mut p = Prog::new();
    let halts = rng.below(4) == 0; // allow 0x00 / 0x01 bytes
    while p.len() < len {
        match rng.below(22) {
            0..=3 => {
                let base = *rng.pick(&ALU_BASES);
                p.alu(base, rng.below(4) as u8, rng.below(4) as u8);
            }
            4..=5 => {
                let base = *rng.pick(&UN_BASES);
                p.un(base, rng.below(4) as u8);
            }
            6 => {
                p.byte(*rng.pick(&[0x08u8, 0x0C, 0x18, 0x1C, 0x2C, 0x02, 0x17]));
            }
            7 => {
                p.byte(0x10 | rng.below(8) as u8);
            }
            8 => {
                p.byte(0x20 | rng.below(8) as u8);
                p.byte(if rng.bool() { rng.below(6) as u8 } else { rng.u8() });
            }
            9 => {
                p.call(rng.u8());
            }
            10..=17 => {
                // two-byte group with arbitrary modes, I/O heavy operands
                let sm = rng.below(4) as u8;
                let sr = rng.below(4) as u8;
                p.byte(0xF0 | (sm << 2) | sr);
                if sr == 3 && sm >= 2 {
                    p.byte(io_heavy_addr(rng));
                }
                let kind = *rng.pick(&[0x10u8, 0x10, 0x10, 0x20, 0x30, 0x40, 0x50, 0x60]);
                if kind == 0x40 {
                    p.byte(if rng.bool() { 0x40 } else { 0x44 });
                } else {
                    let dm = rng.below(4) as u8;
                    let dr = rng.below(4) as u8;
                    p.byte(kind | (dm << 2) | dr);
                    if dr == 3 && dm >= 2 {
                        p.byte(io_heavy_addr(rng));
                    }
                }
            }
            18 => {
                // load a pointer register with an interesting address
                p.ld_imm(rng.below(3) as u8, io_heavy_addr(rng));
            }
            19 => {
                p.ldsp(Src::Imm(rng.u8()));
            }
            20 => {
                if halts {
                    p.byte(rng.below(2) as u8);
                } else {
                    p.nop();
                }
            }
            _ => {
                p.byte(rng.u8());
            }
        }
    }
    p.b.truncate(len);
    p.b
}

pub fn pick_limit(rng: &mut Rng, image_len: usize) -> Option<u8> {
    match rng.below(10) {
        0 => None,
        1 => Some(0),
        2 => Some(1),
        3 => Some(image_len.min(255) as u8),
        4 => Some(0x7F),
        5 => Some(0xEF),
        6 | 7 => Some(0xFF),
        _ => Some(rng.u8()),
    }
}

pub fn pick_stack(rng: &mut Rng) -> u8 {
    STACK_SIZES[rng.usize(5)]
}

/// a stack pointer value that is legal for the stack size
pub fn valid_sp(rng: &mut Rng, stack: u8) -> u8 {
    loop {
        let v = match rng.below(4) {
            0 => 0xEF,
            1 => 0xE0 + rng.below(16) as u8,
            _ => rng.below(0xF0) as u8,
        };
        if crate::isa::sp_valid(stack, v) {
            return v;
        }
    }
}

// ------------------------------------------------------------------------------------------------
// C01 workload A: hazard-biased instruction sequences

pub const DATA_LO: u8 = 0x98;
pub const DATA_HI: u8 = 0xBF; // inclusive
pub const PTR_LO: u8 = 0xC0; // cells holding addresses into the data area
pub const PTR_HI: u8 = 0xC7;

fn data_addr(rng: &mut Rng) -> u8 {
    DATA_LO + rng.below((DATA_HI - DATA_LO + 1) as u64) as u8
}
fn ptr_addr(rng: &mut Rng) -> u8 {
    PTR_LO + rng.below((PTR_HI - PTR_LO + 1) as u64) as u8
}

fn any_addr(rng: &mut Rng) -> u8 {
    match rng.below(10) {
        0 => 0xF0 + rng.below(4) as u8,  // board
        1 => 0xFC + rng.below(4) as u8,  // input / output / timer registers
        2 => 0xF9,
        3 => *rng.pick(&[0xEEu8, 0xEF, 0xF0, 0xF1]),
        _ => data_addr(rng),
    }
}

pub fn gen_src(rng: &mut Rng, p: &mut Prog, wild: bool) -> Src {
    match rng.below(10) {
        0 | 1 => Src::R(rng.below(if wild { 4 } else { 3 }) as u8),
        2 | 3 => Src::Imm(rng.u8()),
        4 | 5 => Src::Abs(if wild { any_addr(rng) } else { data_addr(rng) }),
        6 => {
            let r = rng.below(3) as u8;
            if !wild || rng.bool() {
                p.ld_imm(r, data_addr(rng));
            }
            Src::Ind(r)
        }
        7 | 8 => {
            let r = rng.below(3) as u8;
            if !wild || rng.bool() {
                p.ld_imm(r, data_addr(rng));
            }
            Src::IndInc(r)
        }
        _ => {
            let r = rng.below(3) as u8;
            if !wild || rng.bool() {
                p.ld_imm(r, ptr_addr(rng));
            }
            Src::IndInc2(r)
        }
    }
}

pub fn gen_dst(rng: &mut Rng, p: &mut Prog, wild: bool, avoid: Option<u8>) -> Dst {
    let pick_reg = |rng: &mut Rng| loop {
        let r = rng.below(3) as u8;
        if Some(r) != avoid {
            return r;
        }
    };
    match rng.below(10) {
        0..=2 => Dst::R(rng.below(3) as u8),
        3 | 4 => Dst::Abs(if wild { any_addr(rng) } else { data_addr(rng) }),
        5 => {
            let r = pick_reg(rng);
            p.ld_imm(r, data_addr(rng));
            Dst::Ind(r)
        }
        6 | 7 => {
            let r = pick_reg(rng);
            p.ld_imm(r, data_addr(rng));
            Dst::IndInc(r)
        }
        _ => {
            let r = pick_reg(rng);
            p.ld_imm(r, ptr_addr(rng));
            Dst::IndInc2(r)
        }
    }
}

fn src_reg(s: Src) -> Option<u8> {
    match s {
        Src::Ind(r) | Src::IndInc(r) | Src::IndInc2(r) => Some(r),
        _ => None,
    }
}

#[derive(Clone, Copy, Debug, PartialEq)]
pub struct HazardOpts {
    /// number of instruction templates
    pub len: usize,
    /// allow operands anywhere (I/O space, PC as operand register)
    pub wild: bool,
    /// place a tail of the program at 0xE8.. so that PC runs into the I/O area
    pub run_into_io: bool,
    pub with_ei: bool,
    /// interrupt-program layout (C04): `JR MAIN; JR ISR` head, typed stack discipline, ISR tail
    pub irq: Option<IrqOpts>,
}

#[derive(Clone, Copy, Debug, PartialEq)]
pub struct IrqOpts {
    /// program sets the key-edge enable bit (MICR bit 0)
    pub enable_key: bool,
    /// main program contains DI ... EI windows and flag loads that may clear IE
    pub di_windows: bool,
    /// the ISR re-enables interrupts (nesting)
    pub nested_ei: bool,
    /// the ISR does register work besides counting
    pub isr_work: bool,
    /// set the enable bit with a plain store instead of `BITS (0xF9),1` (which reads the status register)
    pub enable_by_store: bool,
    /// main program contains windows in which the key-edge enable bit is cleared by a plain store to
    /// 0xF9 and set again a few instructions later (a press latched before the clearing store takes
    /// effect must still be served; a press inside the window must not)
    pub mask_windows: bool,
    /// a STOP in the middle of the main body; the driver presses CONTINUE after some halted edges
    /// (a press made while the machine is halted must be served after the continue)
    pub mid_stop: bool,
    /// the ISR's very first instruction is EI (a press latched during the entry sequence is then
    /// served as a nested entry right after it: EI does not sample)
    pub isr_ei_first: bool,
}

pub const IRQ_COUNTER: u8 = 0xCF;
pub const IRQ_SCRATCH: u8 = 0xCE;

/// Instruction sequence from the full emittable set with a bias toward hazards (DESIGN.md C01 A).
/// Returns the image and the stack pointer it installs.
pub fn hazard_program(rng: &mut Rng, o: HazardOpts) -> Vec<u8> {
    hazard_program_ex(rng, o).0
}

/// as `hazard_program`; the flag tells whether the mid-body STOP (IrqOpts::mid_stop) was emitted
pub fn hazard_program_ex(rng: &mut Rng, o: HazardOpts) -> (Vec<u8>, bool) {
    let mut p = Prog::new();
    let mid_stop_at = match o.irq {
        Some(i) if i.mid_stop => Some(1 + rng.usize(o.len.max(2) - 1)),
        _ => None,
    };
    let mut mid_stop_emitted = false;
    // subroutine table is placed after the main body; CALLs are patched afterwards
    let mut call_sites: Vec<usize> = vec![];
    let mut depth: i32 = 0;
    // kinds of the values on the stack (true = flag register), so that POPF only pops flags
    let mut kinds: Vec<bool> = vec![];
    let body_limit = if o.irq.is_some() { 0x58 } else { 0x80 };
    let ei_at_vector = o.irq.map(|i| i.isr_ei_first).unwrap_or(false);
    if o.irq.is_some() {
        if ei_at_vector {
            // the interrupt vector itself holds EI (which does not sample): a press latched during
            // the entry sequence is then taken at the end of the JR that follows
            p.byte(0x20).byte(0x03); // JR MAIN (to address 5)
            p.ei();
            p.byte(0x20).byte(0x00); // JR ISR, patched below
        } else {
            p.byte(0x20).byte(0x02); // JR MAIN (to address 4)
            p.byte(0x20).byte(0x00); // JR ISR, patched below
        }
    }
    p.ldsp(Src::Imm(0xEF));
    if let Some(i) = o.irq {
        if i.enable_key {
            if i.enable_by_store {
                // LD R0,#v ; ST (0xF9),R0 -- no read of the status register involved; v has bit 0 set
                // and sometimes other enable bits of the mask as well
                let v = if rng.chance(1, 3) { 1 | (rng.u8() & 0x3E) } else { 1 };
                p.ld_imm(0, v);
                p.st_abs(0xF9, 0);
            } else {
                p.two(OP2_BITS, Dst::Abs(0xF9), Src::Imm(1));
            }
        }
        p.ei();
    } else if o.with_ei {
        p.two(OP2_BITS, Dst::Abs(0xF9), Src::Imm(1));
        p.ei();
    }
    let mut last_flag_producer = false;
    let mut n = 0;
    while n < o.len && p.len() < body_limit {
        n += 1;
        if Some(n) == mid_stop_at {
            p.stop();
            mid_stop_emitted = true;
        }
        let choice = if last_flag_producer && rng.chance(1, 2) { 100 + rng.below(5) } else { rng.below(40) };
        last_flag_producer = false;
        match choice {
            0..=7 => {
                let base = *rng.pick(&ALU_BASES);
                let d = rng.below(3) as u8;
                let s = rng.below(if o.wild { 4 } else { 3 }) as u8;
                p.alu(base, d, s);
                last_flag_producer = true;
            }
            8..=12 => {
                let base = *rng.pick(&UN_BASES);
                p.un(base, rng.below(3) as u8);
                last_flag_producer = base != 0x04;
            }
            13..=19 => {
                let s = gen_src(rng, &mut p, o.wild);
                let d = gen_dst(rng, &mut p, o.wild, src_reg(s));
                p.mov(d, s);
            }
            20..=22 => {
                let s = gen_src(rng, &mut p, o.wild);
                let d = gen_dst(rng, &mut p, o.wild, src_reg(s));
                p.two(OP2_CMP, d, s);
                last_flag_producer = true;
            }
            23 => {
                let s = gen_src(rng, &mut p, o.wild);
                let d = gen_dst(rng, &mut p, o.wild, src_reg(s));
                p.two(OP2_BITT, d, s);
                last_flag_producer = true;
            }
            24 | 25 => {
                let s = gen_src(rng, &mut p, o.wild);
                let d = gen_dst(rng, &mut p, o.wild, src_reg(s));
                p.two(OP2_BITS, d, s);
                last_flag_producer = true;
            }
            26 | 27 => {
                let s = gen_src(rng, &mut p, o.wild);
                let d = gen_dst(rng, &mut p, o.wild, src_reg(s));
                p.two(OP2_BITC, d, s);
                last_flag_producer = true;
            }
            28 => {
                if depth < 5 {
                    if rng.bool() {
                        p.push(rng.below(if o.wild { 4 } else { 3 }) as u8);
                        kinds.push(false);
                    } else {
                        p.pushf();
                        kinds.push(true);
                    }
                    depth += 1;
                }
            }
            29 => {
                if depth > 0 {
                    let top_is_flags = kinds.pop().unwrap_or(false);
                    let popf = if o.irq.is_some() { top_is_flags } else { rng.chance(1, 3) };
                    if popf {
                        // POPF may set IE: harmless without an enabled key
                        p.popf();
                    } else {
                        p.pop(rng.below(3) as u8);
                    }
                    depth -= 1;
                }
            }
            30 => {
                // MUL / DIV followed directly by something that would show stale scratch state
                let base = if rng.bool() { 0xB0 } else { 0xC0 };
                p.alu(base, rng.below(3) as u8, rng.below(3) as u8);
                last_flag_producer = true;
            }
            31 => {
                // forward conditional jump over k one-byte instructions
                let k = rng.below(3) as u8;
                let c = *rng.pick(&[0u8, 1, 2, 3, 5, 6, 7, 4]);
                p.byte(0x20 | c);
                p.byte(k);
                for _ in 0..k {
                    p.un(*rng.pick(&[0x44u8, 0x50, 0x30, 0x38]), rng.below(3) as u8);
                }
            }
            32 => {
                // bounded backward loop
                let r = rng.below(3) as u8;
                p.ld_imm(r, 1 + rng.below(4) as u8);
                let top = p.here();
                let body = rng.below(3);
                for _ in 0..body {
                    let rr = (r + 1 + rng.below(2) as u8) % 3;
                    p.un(*rng.pick(&[0x44u8, 0x38, 0x40, 0x34]), rr);
                }
                p.un(0x50, r);
                p.jr_to(6, top); // JZC
            }
            33 => {
                call_sites.push(p.len());
                p.call(0);
            }
            34 => {
                // store into the instruction stream a few bytes ahead (self-modifying code)
                let r = rng.below(3) as u8;
                let newop = *rng.pick(&[0x44u8, 0x50, 0x30, 0x02, 0x04, 0x38]) | (rng.below(3) as u8 & 3);
                p.ld_imm(r, if newop & 0xFC == 0x00 { 0x02 } else { newop });
                // (3 = the byte fetched right after this store)
                let target = p.here().wrapping_add(3 + rng.below(4) as u8);
                p.st_abs(target, r);
                for _ in 0..4 {
                    p.un(*rng.pick(&[0x44u8, 0x50, 0x48]), rng.below(3) as u8);
                }
            }
            35 => {
                match o.irq {
                    Some(i) if !i.di_windows => {
                        // flag loads that keep IE set
                        p.ldfr(Src::Imm(rng.u8() | 0x08));
                    }
                    _ => {
                        p.ldfr(if rng.bool() { Src::Imm(rng.u8() & if o.with_ei { 0xFF } else { 0xF7 }) } else { Src::R(rng.below(3) as u8) });
                    }
                }
            }
            36 => {
                if o.wild && o.irq.is_none() {
                    p.ldsp(Src::Imm(0xE0 + rng.below(16) as u8));
                    depth = 0;
                } else if o.irq.map(|i| i.mask_windows).unwrap_or(false) && rng.chance(1, 3) {
                    // the enable mask rewritten with bit 0 still set (a latched press must survive it)
                    p.mov(Dst::Abs(0xF9), Src::Imm(1 | (rng.u8() & 0x3E)));
                } else if o.irq.map(|i| i.mask_windows).unwrap_or(false) {
                    // mask window: MOV (0xF9),#v with bit 0 clear ... MOV (0xF9),#w with bit 0 set
                    let v0 = if rng.bool() { 0 } else { rng.u8() & 0x3E };
                    p.mov(Dst::Abs(0xF9), Src::Imm(v0));
                    for _ in 0..rng.below(4) {
                        p.un(*rng.pick(&[0x44u8, 0x50, 0x30, 0x38]), rng.below(3) as u8);
                    }
                    let v1 = if rng.bool() { 1 } else { 1 | (rng.u8() & 0x3E) };
                    p.mov(Dst::Abs(0xF9), Src::Imm(v1));
                } else {
                    p.nop();
                }
            }
            37 => {
                match o.irq {
                    Some(i) if i.di_windows => {
                        // a DI ... EI window
                        p.di();
                        for _ in 0..rng.below(4) {
                            p.un(*rng.pick(&[0x44u8, 0x50, 0x30, 0x38]), rng.below(3) as u8);
                        }
                        p.ei();
                    }
                    Some(_) => {
                        p.byte(*rng.pick(&[0x02u8, 0x08]));
                    }
                    None => {
                        p.byte(*rng.pick(&[0x02u8, 0x0C, 0x08]));
                    }
                }
            }
            38 => {
                // output / input registers
                if o.irq.is_some() && rng.chance(1, 3) {
                    // stores to the board ports and UART registers (nothing there is wired to the CPU's
                    // interrupt logic: a latched key press must survive them)
                    let a = *rng.pick(&[0xF0u8, 0xF1, 0xF2, 0xF3, 0xF3, 0xFA, 0xFB]);
                    if rng.bool() {
                        p.st_abs(a, rng.below(3) as u8);
                    } else {
                        p.mov(Dst::Abs(a), Src::Imm(rng.u8()));
                    }
                } else if rng.bool() {
                    p.st_abs(0xFE + rng.below(2) as u8, rng.below(3) as u8);
                } else {
                    p.ld_abs(rng.below(3) as u8, 0xFC + rng.below(4) as u8);
                }
            }
            39 => {
                // (R+) with R = SP is not encodable; use PC as pointer: (PC+) = immediate, done via Imm.
                // DEC on memory (not emitted by the assembler, still defined): rarely
                if o.wild {
                    let r = rng.below(3) as u8;
                    p.ld_imm(r, data_addr(rng));
                    p.byte(0x54 + 4 * rng.below(3) as u8 + r);
                    last_flag_producer = true;
                } else {
                    p.nop();
                }
            }
            // flag consumers right after a flag producer
            100 => {
                p.alu(0x70, rng.below(3) as u8, rng.below(3) as u8); // ADC / RLC
                last_flag_producer = true;
            }
            101 => {
                p.un(0x40, rng.below(3) as u8); // RRC
                last_flag_producer = true;
            }
            102 => {
                let c = *rng.pick(&[1u8, 2, 3, 5, 6, 7]);
                p.byte(0x20 | c);
                p.byte(1);
                p.un(0x44, rng.below(3) as u8);
            }
            103 => {
                if depth < 5 {
                    p.pushf();
                    kinds.push(true);
                    depth += 1;
                }
            }
            _ => {
                let s = Src::R(rng.below(3) as u8);
                p.two(OP2_CMP, Dst::R(rng.below(3) as u8), s);
                last_flag_producer = true;
            }
        }
    }
    // balance the stack so that subroutine returns work
    while depth > 0 {
        if kinds.pop().unwrap_or(false) && o.irq.is_some() {
            p.popf();
        } else {
            p.pop(rng.below(3) as u8);
        }
        depth -= 1;
    }
    if o.run_into_io {
        p.jmp(0xE8);
    } else {
        p.stop();
    }
    // subroutines
    let nsubs = 2;
    let mut subs = vec![];
    for _ in 0..nsubs {
        subs.push(p.here());
        for _ in 0..rng.below(4) {
            match rng.below(3) {
                0 => {
                    p.alu(*rng.pick(&ALU_BASES[..5]), rng.below(3) as u8, rng.below(3) as u8);
                }
                1 => {
                    p.un(*rng.pick(&UN_BASES), rng.below(3) as u8);
                }
                _ => {
                    let a = data_addr(rng);
                    p.st_abs(a, rng.below(3) as u8);
                }
            }
        }
        p.ret();
    }
    for site in call_sites {
        let t = subs[rng.usize(subs.len())];
        p.b[site + 1] = t;
    }
    if let Some(i) = o.irq {
        // interrupt service routine: counts in IRQ_COUNTER, preserves what it uses
        let isr = p.here();
        if ei_at_vector {
            p.b[4] = isr.wrapping_sub(5);
            // (interrupts are on since the EI at the vector: off again before the counter update)
            p.di();
        } else {
            p.b[3] = isr.wrapping_sub(4);
        }
        p.push(0);
        if i.isr_work {
            p.push(1);
        }
        p.ld_abs(0, IRQ_COUNTER);
        p.un(0x44, 0);
        p.st_abs(IRQ_COUNTER, 0);
        if i.isr_work {
            p.ld_imm(1, rng.u8());
            p.alu(*rng.pick(&ALU_BASES), 1, 0);
            p.alu(*rng.pick(&ALU_BASES[..5]), 0, 1);
            p.st_abs(IRQ_SCRATCH, 1);
        }
        if i.nested_ei {
            p.ei();
            p.nop();
            p.nop();
        }
        if i.isr_work {
            p.pop(1);
        }
        p.pop(0);
        p.reti();
    }
    // data area
    p.org(DATA_LO as usize);
    while p.len() <= DATA_HI as usize {
        p.byte(rng.u8());
    }
    while p.len() <= PTR_HI as usize {
        let a = data_addr(rng);
        p.byte(a);
    }
    if o.run_into_io {
        p.org(0xE8);
        // 8 one-byte instructions, then the PC walks into 0xF0..
        for _ in 0..8 {
            p.un(*rng.pick(&[0x44u8, 0x50, 0x30, 0x38, 0x48]), rng.below(3) as u8);
        }
    }
    (p.b, mid_stop_emitted)
}

pub fn hazard_setup(rng: &mut Rng, wild_p: u64) -> Setup {
    let wild = rng.chance(wild_p, 100);
    let run_into_io = rng.chance(1, 12);
    let o = HazardOpts {
        len: 20 + rng.usize(381),
        wild,
        run_into_io,
        with_ei: rng.chance(1, 4),
        irq: None,
    };
    let bytes = hazard_program(rng, o);
    let stack = if rng.chance(1, 2) { 16 } else { pick_stack(rng) };
    let limit = if run_into_io || rng.chance(2, 3) { Some(0xFF) } else { Some(0xEF) };
    let mut regs = [0u8; 8];
    for r in regs.iter_mut() {
        *r = rng.u8();
    }
    regs[3] = 0; // start at address 0
    regs[5] = valid_sp(rng, stack);
    if !o.with_ei {
        // IE set with a clear key-enable bit is harmless; keep all 8 FR bits hostile
    }
    let mut inputs = [0u8; 4];
    for i in inputs.iter_mut() {
        *i = rng.u8();
    }
    Setup {
        image: Image { bytes, stack, limit, keep_limit: false },
        regs: Some(regs),
        pokes: vec![],
        inputs,
        asm_mode: false,
    }
}

/// A machine set up with one instruction form (first byte `b1`, optional second byte `b2`) at a
/// seeded address, random operands / registers / RAM (pointers sometimes into I/O space), flag
/// nibble `f`. Shared by C09 (control flow of every form) and C01/C15 (state and cost of every form).
pub fn form_case_setup(rng: &mut Rng, b1: u8, b2: Option<u8>, f: u8) -> Setup {
    // mostly mid-RAM; sometimes right at the RAM / I-O edge so that operand bytes are fetched from
    // 0xEF / 0xF0.. (bytes beyond 0xEF come from the I/O registers)
    let at = if rng.chance(1, 6) { 0xEA + rng.below(6) as u8 } else { 0x10 + rng.below(0x70) as u8 };
    let mut bytes = uniform_image(rng, 240);
    bytes.resize(245, 0);
    bytes[at as usize] = b1;
    let mut pos = at as usize + 1;
    if b1 < 0xF0 && rng.chance(1, 4) {
        // operand byte of JR / CALL / ... at a boundary value (target 0, the interrupt vector, wraps)
        bytes[pos] = *rng.pick(&[0x00u8, 0x00, 0x01, 0x02, 0xFF, 0xFE, 0x80, 0x7F, 0xEF, 0xF0]);
    }
    if b1 >= 0xF0 {
        let sm = (b1 >> 2) & 3;
        let sr = b1 & 3;
        if sr == 3 && sm >= 2 {
            bytes[pos] = if rng.chance(1, 3) { 0xF0 + rng.below(16) as u8 } else { rng.u8() };
            pos += 1;
        }
        if let Some(b2) = b2 {
            bytes[pos] = b2;
            pos += 1;
            if b2 & 3 == 3 && (b2 >> 2) & 3 >= 2 {
                bytes[pos] = if rng.chance(1, 3) { 0xF0 + rng.below(16) as u8 } else { rng.u8() };
            }
        }
    }
    let mut regs = [0u8; 8];
    for r in regs.iter_mut() {
        *r = rng.u8();
    }
    if rng.chance(1, 3) {
        regs[rng.usize(3)] = 0xF0 + rng.below(16) as u8; // a pointer into I/O space
    }
    if rng.chance(1, 4) {
        regs[rng.usize(3)] = *rng.pick(&[0xEEu8, 0xEF, 0xF0, 0xFF, 0x00]); // boundary pointers (wrap, RAM/I-O edge)
    }
    regs[3] = at;
    regs[4] = (regs[4] & 0xF0) | (f & 0x0F);
    regs[5] = valid_sp(rng, 0);
    let mut inputs = [rng.u8(), rng.u8(), rng.u8(), rng.u8()];
    if rng.chance(1, 8) {
        // the instruction sits in the input registers 0xFC..0xFF (legal: they are readable bus
        // addresses); its operand bytes follow there and wrap around to RAM address 0
        let len = pos + 2 - at as usize;
        let insn: Vec<u8> = (0..len).map(|i| bytes[(at as usize + i).min(244)]).collect();
        let start = 0xFCu8 + rng.below(4) as u8;
        for (i, b) in insn.iter().enumerate() {
            let a = start.wrapping_add(i as u8);
            if a >= 0xFC {
                inputs[(a - 0xFC) as usize] = *b;
            } else if (a as usize) < 240 {
                bytes[a as usize] = *b;
            }
        }
        regs[3] = start;
    }
    bytes.truncate(240);
    Setup { image: Image { bytes, stack: 0, limit: Some(0xFF), keep_limit: false }, regs: Some(regs), pokes: vec![], inputs, asm_mode: false }
}
