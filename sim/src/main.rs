#![allow(dead_code)]
// ---- /repo/emulator-2a (binary crate) modules, compiled into the harness from the working tree ----
// They refer to each other through `crate::{args, error, helpers, tui}`, so they sit at the crate
// root under their own names. `runner` is the binary crate's CLI glue (C12 uses it via the real
// binary; it is included so that the module tree is complete).
#[allow(unused, clippy::all)]
#[path = "/repo/emulator-2a/src/args.rs"]
mod args;
#[allow(unused, clippy::all)]
#[path = "/repo/emulator-2a/src/error.rs"]
mod error;
#[allow(unused, clippy::all)]
#[path = "/repo/emulator-2a/src/helpers/mod.rs"]
mod helpers;
#[allow(unused, clippy::all)]
#[path = "/repo/emulator-2a/src/tui/mod.rs"]
mod tui;

mod boardref;
mod checks;
mod driver;
mod engine;
mod gen;
mod isa;
mod lockstep;
mod prng;
mod sut;
mod textgen;

use driver::{Check, Opts, ReplayFile, Tier};

fn usage() -> ! {
    eprintln!("usage: simcheck check <ID> [quick|thorough] | simcheck replay <FILE> | simcheck selfcheck <ID> [N]");
    std::process::exit(2)
}

macro_rules! dispatch {
    ($id:expr, $f:ident $(, $arg:expr)*) => {
        match $id {
            "C01" => $f(&checks::c01::C01 { cost: false } $(, $arg)*),
            "C15" => $f(&checks::c01::C01 { cost: true } $(, $arg)*),
            "C13" => $f(&checks::c13::C13 $(, $arg)*),
            "C05" => $f(&checks::c05::C05 $(, $arg)*),
            "C04" => $f(&checks::c04::C04 $(, $arg)*),
            "C09" => $f(&checks::c09::C09 $(, $arg)*),
            "C11" => $f(&checks::c11::C11 $(, $arg)*),
            "C14" => $f(&checks::c14::C14 $(, $arg)*),
            "C10" => $f(&checks::c10::C10 $(, $arg)*),
            "C07" => $f(&checks::c07::C07 $(, $arg)*),
            "C12" => $f(&checks::c12::C12 $(, $arg)*),
            "C17" => $f(&checks::c17::C17 $(, $arg)*),
            _ => {
                eprintln!("unknown or not-applicable property {}", $id);
                std::process::exit(2)
            }
        }
    };
}

fn do_check<C: Check>(c: &C, tier: Tier) -> i32 {
    driver::run_check(c, &Opts::from_env(tier))
}
fn do_replay<C: Check>(c: &C, path: &std::path::Path, rf: &ReplayFile) -> i32 {
    driver::replay_cmd(c, path, rf)
}
fn do_selfcheck<C: Check>(c: &C, n: u64) -> i32 {
    driver::selfcheck_determinism(c, &Opts::from_env(Tier::Quick), n)
}

fn main() {
    driver::install_quiet_panic_hook();
    if std::env::var_os("VERIF_TRACE").is_some() {
        lockstep::TRACE.store(true, std::sync::atomic::Ordering::Relaxed);
    }
    let args: Vec<String> = std::env::args().collect();
    if args.len() < 3 {
        usage();
    }
    let code = match args[1].as_str() {
        "check" => {
            let tier = match args.get(3).map(|s| s.as_str()).or(std::env::var("VERIF_TIER").ok().as_deref()) {
                Some("thorough") => Tier::Thorough,
                _ => Tier::Quick,
            };
            dispatch!(args[2].as_str(), do_check, tier)
        }
        "replay" => {
            let path = std::path::PathBuf::from(&args[2]);
            let txt = std::fs::read_to_string(&path).unwrap_or_else(|e| {
                eprintln!("HARNESS-ERROR: cannot read {}: {}", path.display(), e);
                std::process::exit(2)
            });
            let rf: ReplayFile = serde_json::from_str(&txt).unwrap_or_else(|e| {
                eprintln!("HARNESS-ERROR: cannot parse {}: {}", path.display(), e);
                std::process::exit(2)
            });
            let id = rf.property.clone();
            dispatch!(id.as_str(), do_replay, &path, &rf)
        }
        "selfcheck" => {
            let n = args.get(3).and_then(|s| s.parse().ok()).unwrap_or(200);
            dispatch!(args[2].as_str(), do_selfcheck, n)
        }
        _ => usage(),
    };
    std::process::exit(code);
}
