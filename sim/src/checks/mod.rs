pub mod c01;
