pub mod c01;
pub mod c04;
pub mod c05;
pub mod c09;
pub mod c10;
pub mod c11;
pub mod c13;
pub mod c14;
