//! C10: bus address map - RAM, I/O registers and ports never alias or leak.
//! Two parties act on the bus: the CPU (helper programs that load/store through every addressing
//! mode) and an outside caller (direct Bus::read/write, input setters, key presses). After every
//! operation the observable map is compared with R-BUS; every read is checked to be side-effect
//! free by cloning before and comparing after.
use crate::boardref::{DAISR_SPEC_MASK, DASR_SPEC_MASK};
use crate::driver::{mix, Check, Ctx, Tier, Violation};
use crate::isa::Ref;
use crate::lockstep::ref_apply_env;
use crate::prng::Rng;
use crate::sut::{Setup, Stim};
use emulator_2a_lib::machine::{Machine, State};
use serde::{Deserialize, Serialize};
use serde_json::{json, Value};

pub struct C10;

#[derive(Clone, Debug, PartialEq, Serialize, Deserialize)]
pub enum Op {
    S(Stim),
    /// CPU stores v to addr using addressing mode m (1 (R), 2 (R+), 3 ((R+)) / absolute)
    CpuWrite(u8, u8, u8),
    /// CPU loads from addr using addressing mode m
    CpuRead(u8, u8),
    /// CPU loads from input register 0xFC+r (or, r = 4, the board's input port 0xF0) using mode m
    /// while the register is set from outside to `v` right before edge `k` of the helper program:
    /// the load must return what the register held at the edge on which the bus read happened
    CpuReadRace(u8, u8, u8, u8),
}

#[derive(Clone, Debug, Serialize, Deserialize)]
pub enum Scn {
    History(Vec<Op>),
    /// single write of `byte` to every address, each followed by a read of all 256 addresses
    SingleWrites(u8),
    /// write pairs: first address fixed, second address sweeps 0..=255
    Pairs(u8),
}

fn v(oracle: &str, i: usize, d: String) -> Violation {
    Violation::new("C10", oracle, format!("op#={} {}", i, d))
}

/// scratch area for helper programs: code at 0x00.., pointer cell at 0x20
const PTR_CELL: u8 = 0x20;
fn is_scratch(a: u8) -> bool {
    a <= PTR_CELL
}

fn run_prog(m: &mut Machine, rf: &mut Ref, code: &[u8]) -> bool {
    m.cpu_reset();
    rf.cpu_reset();
    for (i, b) in code.iter().enumerate() {
        m.raw_mut().bus_mut().memory_mut()[i] = *b;
        rf.ram[i] = *b;
    }
    for _ in 0..300 {
        m.trigger_key_clock();
        if m.state() != State::Running {
            break;
        }
    }
    m.state() == State::Stopped
}

/// what read(addr) must return by the statement; None = not specified
fn expected_read(rf: &Ref, a: u8) -> Option<(u8, u8)> {
    match a {
        0..=0xEF => Some((rf.ram[a as usize], 0xFF)),
        0xF0 => Some((rf.board.di1, 0xFF)),
        0xF1 => Some((rf.board.dasr(), DASR_SPEC_MASK)),
        0xF3 => Some((rf.board.daisr(), DAISR_SPEC_MASK)),
        0xFC..=0xFF => Some((rf.inputs[(a - 0xFC) as usize], 0xFF)),
        _ => None,
    }
}

/// compare the whole observable map
fn map_diff(m: &Machine, rf: &Ref) -> Option<String> {
    let mem = m.bus().memory();
    for a in 0..240usize {
        if mem[a] != rf.ram[a] {
            return Some(format!("RAM[0x{:02X}] = 0x{:02X}, last written 0x{:02X}", a, mem[a], rf.ram[a]));
        }
    }
    for a in 0..=255u8 {
        if let Some((w, mask)) = expected_read(rf, a) {
            let got = m.bus().read(a);
            if got & mask != w & mask {
                return Some(format!("read(0x{:02X}) = 0x{:02X}, expected 0x{:02X} (mask 0x{:02X})", a, got, w, mask));
            }
        }
    }
    if m.bus().output_fe() != rf.out[0] || m.bus().output_ff() != rf.out[1] {
        return Some(format!("output registers FE/FF = {:02X}/{:02X}, last written {:02X}/{:02X}", m.bus().output_fe(), m.bus().output_ff(), rf.out[0], rf.out[1]));
    }
    if m.bus().is_key_edge_int_enabled() != (rf.micr & 1 != 0) {
        return Some(format!("key-edge enable = {}, bit 0 of the last write to 0xF9 = {}", m.bus().is_key_edge_int_enabled(), rf.micr & 1));
    }
    let b = m.bus().board();
    if *b.digital_output1() != rf.board.do1 || *b.digital_output2() != rf.board.do2 {
        return Some(format!("board output ports {:02X}/{:02X}, last written to 0xF0/0xF1: {:02X}/{:02X}", b.digital_output1(), b.digital_output2(), rf.board.do1, rf.board.do2));
    }
    None
}

fn read_is_pure(m: &Machine, a: u8) -> Result<u8, String> {
    let before = m.clone();
    let x = m.bus().read(a);
    if *m != before {
        return Err(format!("read(0x{:02X}) changed the machine", a));
    }
    let y = m.bus().read(a);
    if x != y {
        return Err(format!("two reads of 0x{:02X} in a row returned 0x{:02X} then 0x{:02X}", a, x, y));
    }
    Ok(x)
}

fn cpu_write(m: &mut Machine, rf: &mut Ref, addr: u8, val: u8, mode: u8) -> bool {
    // LD R0,#val ; then the store
    let code: Vec<u8> = match mode {
        1 => vec![0xFB, val, 0x10, 0xFB, addr, 0x11, 0xF0, 0x15, 0x01], // LD R1,#addr ; MOV (R1),R0
        2 => vec![0xFB, val, 0x10, 0xFB, addr, 0x11, 0xF0, 0x19, 0x01], // MOV (R1+),R0
        3 => vec![0xFB, val, 0x10, 0xFB, PTR_CELL, 0x11, 0xF0, 0x1D, 0x01], // MOV ((R1+)),R0 via pointer cell
        _ => vec![0xFB, val, 0x10, 0xF0, 0x1F, addr, 0x01],             // ST (addr),R0
    };
    if mode == 3 {
        m.raw_mut().bus_mut().memory_mut()[PTR_CELL as usize] = addr;
        rf.ram[PTR_CELL as usize] = addr;
    }
    run_prog(m, rf, &code)
}

fn cpu_read(m: &mut Machine, rf: &mut Ref, addr: u8, mode: u8) -> Option<u8> {
    let code: Vec<u8> = match mode {
        1 => vec![0xFB, addr, 0x11, 0xF5, 0x10, 0x01],     // LD R1,#addr ; MOV R0,(R1)
        2 => vec![0xFB, addr, 0x11, 0xF9, 0x10, 0x01],     // MOV R0,(R1+)
        3 => vec![0xFB, PTR_CELL, 0x11, 0xFD, 0x10, 0x01], // MOV R0,((R1+))
        _ => vec![0xFF, addr, 0x10, 0x01],                 // LD R0,(addr)
    };
    if mode == 3 {
        m.raw_mut().bus_mut().memory_mut()[PTR_CELL as usize] = addr;
        rf.ram[PTR_CELL as usize] = addr;
    }
    if run_prog(m, rf, &code) {
        Some(m.registers().content()[0])
    } else {
        None
    }
}

/// returns (value loaded, index of the edge that performed the bus read of `addr`, edges run)
fn cpu_read_race(m: &mut Machine, rf: &mut Ref, r: u8, mode: u8, k: u8, val: u8) -> Option<(u8, Option<u32>, u32)> {
    let addr = if r >= 4 { 0xF0 } else { 0xFC + r };
    let code: Vec<u8> = match mode {
        1 => vec![0xFB, addr, 0x11, 0xF5, 0x10, 0x01],
        2 => vec![0xFB, addr, 0x11, 0xF9, 0x10, 0x01],
        3 => vec![0xFB, PTR_CELL, 0x11, 0xFD, 0x10, 0x01],
        _ => vec![0xFF, addr, 0x10, 0x01],
    };
    if mode == 3 {
        m.raw_mut().bus_mut().memory_mut()[PTR_CELL as usize] = addr;
        rf.ram[PTR_CELL as usize] = addr;
    }
    m.cpu_reset();
    rf.cpu_reset();
    for (i, b) in code.iter().enumerate() {
        m.raw_mut().bus_mut().memory_mut()[i] = *b;
        rf.ram[i] = *b;
    }
    let stim = if r >= 4 { Stim::Di(val) } else { Stim::InReg(r, val) };
    let mut read_edge = None;
    let mut e = 0u32;
    let mut applied = false;
    while e < 300 {
        if e == k as u32 {
            stim.apply(m);
            applied = true;
        }
        m.trigger_key_clock();
        if m.state() != State::Running {
            break;
        }
        let sg = m.signals();
        if sg.busen() && !sg.buswr() && *m.registers().get(sg.selected_register_a()) == addr && read_edge.is_none() {
            read_edge = Some(e);
        }
        e += 1;
    }
    if !applied {
        stim.apply(m);
    }
    ref_apply_env(rf, &stim);
    if m.state() == State::Stopped {
        Some((m.registers().content()[0], read_edge, e))
    } else {
        None
    }
}

fn acls(a: u8) -> u64 {
    match a {
        0..=0xEE => 0,
        0xEF => 1,
        0xF0 => 2,
        0xF1..=0xF3 => 3,
        0xF4..=0xF8 => 4,
        0xF9 => 5,
        0xFA | 0xFB => 6,
        0xFC => 7,
        0xFD => 8,
        _ => 9,
    }
}

fn fresh() -> (Machine, Ref) {
    let m = Setup::plain(vec![], 0, Some(0xFF)).build();
    let mut rf = Ref::power_on();
    rf.load(&[], 0, Some(0xFF));
    rf.board_reads_from_hint = false;
    (m, rf)
}

/// reads of 0xF4-0xF8 (unused), 0xFA/0xFB (UART receive / status): no value is stated for them,
/// but they must not alias anything: a write anywhere (RAM, ports, the UART send register at the
/// same address) must leave what they return unchanged
const NO_VALUE_ADDRS: [u8; 7] = [0xF4, 0xF5, 0xF6, 0xF7, 0xF8, 0xFA, 0xFB];

fn no_value_reads(m: &Machine) -> [u8; 7] {
    let mut out = [0u8; 7];
    for (i, a) in NO_VALUE_ADDRS.iter().enumerate() {
        out[i] = m.bus().read(*a);
    }
    out
}

/// bits of the board status no statement pins are adopted from the tree after a port write
fn adopt(m: &Machine, rf: &mut Ref, before: &crate::boardref::BoardRef, a: u8, val: u8) {
    if a == 0xF2 || a == 0xF3 {
        let b = m.bus().board();
        rf.board.adopt_after_write(a, val, before, b.dasr().bits(), b.daisr().bits());
    }
}

fn run_history(ops: &[Op], ctx: &mut Ctx) -> Result<(), Violation> {
    let (mut m, mut rf) = fresh();
    let mut last_writer: [u8; 256] = [0; 256];
    for (i, op) in ops.iter().enumerate() {
        let nv_before = no_value_reads(&m);
        let f9_op_before = m.bus().read(0xF9);
        let board_before = rf.board.clone();
        match op {
            Op::S(s) => {
                let f9_before = m.bus().read(0xF9);
                if let Stim::BusRead(a) = s {
                    let x = read_is_pure(&m, *a).map_err(|e| v("read-side-effect", i, e))?;
                    if let Some((w, mask)) = expected_read(&rf, *a) {
                        if x & mask != w & mask {
                            return Err(v("address-map", i, format!("direct read(0x{:02X}) = 0x{:02X}, expected 0x{:02X}", a, x, w)));
                        }
                    }
                    ctx.cov.set("writer-x-reader", mix(mix(last_writer[*a as usize] as u64, acls(*a)), 1));
                } else {
                    s.apply(&mut m);
                    ref_apply_env(&mut rf, s);
                }
                if let Stim::BusWrite(a, val) = s {
                    adopt(&m, &mut rf, &board_before, *a, *val);
                    last_writer[*a as usize] = 1;
                    ctx.cov.set("boundary-address-written-directly", *a as u64 * ((*a == 0xEF || *a == 0xF0 || *a == 0xFB || *a == 0xFC) as u64));
                    if *a == 0xF9 && m.bus().read(0xF9) != f9_before {
                        return Err(v("address-map", i, format!("a write to 0xF9 (interrupt enable mask) changed what read(0xF9) (interrupt status) returns: 0x{:02X} -> 0x{:02X}", f9_before, m.bus().read(0xF9))));
                    }
                }
                ctx.cov.fault(s.kind());
            }
            Op::CpuWrite(a, val, mode) => {
                if is_scratch(*a) {
                    continue;
                }
                if !cpu_write(&mut m, &mut rf, *a, *val, *mode) {
                    return Err(v("harness", i, "helper program did not stop".into()));
                }
                rf.poke(*a, *val);
                adopt(&m, &mut rf, &board_before, *a, *val);
                last_writer[*a as usize] = 2;
                ctx.cov.fault("CPU-WRITE");
                ctx.cov.set("boundary-address-written-by-cpu", *a as u64 * ((*a == 0xEF || *a == 0xF0 || *a == 0xFB || *a == 0xFC) as u64));
            }
            Op::CpuRead(a, mode) => {
                if is_scratch(*a) {
                    continue;
                }
                let got = cpu_read(&mut m, &mut rf, *a, *mode).ok_or_else(|| v("harness", i, "helper program did not stop".into()))?;
                ctx.cov.fault("CPU-READ");
                ctx.cov.set("writer-x-reader", mix(mix(last_writer[*a as usize] as u64, acls(*a)), 2));
                if let Some((w, mask)) = expected_read(&rf, *a) {
                    if got & mask != w & mask {
                        return Err(v("address-map", i, format!("the CPU read 0x{:02X} from 0x{:02X} (mode {}), expected 0x{:02X}", got, a, mode, w)));
                    }
                }
            }
            Op::CpuReadRace(r, mode, k, val) => {
                let addr = if *r >= 4 { 0xF0 } else { 0xFC + *r };
                let old = m.bus().read(addr);
                let (got, read_edge, edges) = cpu_read_race(&mut m, &mut rf, *r, *mode, *k, *val).ok_or_else(|| v("harness", i, "helper program did not stop".into()))?;
                ctx.cov.fault("CPU-READ-RACING-SETTER");
                let re = read_edge.ok_or_else(|| v("harness", i, "no bus read of the register seen in the helper program".into()))?;
                let want = if (*k as u32) <= re { *val } else { old };
                if (*k as u32) <= re && (*k as u32) > 0 && old != *val {
                    ctx.cov.probe("input-changed-inside-the-reading-instruction-before-the-read");
                }
                let _ = edges;
                if got != want {
                    return Err(v(
                        "address-map",
                        i,
                        format!(
                            "the CPU read 0x{:02X} from 0x{:02X} (mode {}); the register held 0x{:02X} and was set to 0x{:02X} from outside right before edge {} of the helper program, the bus read happened on edge {}: expected 0x{:02X}",
                            got, addr, mode, old, val, k, re, want
                        ),
                    ));
                }
            }
        }
        ctx.cov.distinct(mix(i as u64 & 0, match op {
            Op::S(Stim::BusWrite(a, _)) => mix(1, acls(*a)),
            Op::S(Stim::BusRead(a)) => mix(2, acls(*a)),
            Op::CpuWrite(a, _, md) => mix(3 + *md as u64 * 16, acls(*a)),
            Op::CpuRead(a, md) => mix(4 + *md as u64 * 16, acls(*a)),
            Op::CpuReadRace(r, md, k, _) => mix(6 + *md as u64 * 16, mix(*r as u64, (*k).min(20) as u64)),
            Op::S(s) => mix(5, s.kind_id()),
        }));
        if let Some(d) = map_diff(&m, &rf) {
            return Err(v("address-map", i, format!("after {:?}: {}", op, d)));
        }
        // the interrupt status changes through interrupt events, never through a bus write (to the
        // mask at the same address, to the timer or UART registers, or anywhere else)
        if matches!(op, Op::S(Stim::BusWrite(..))) {
            let now = m.bus().read(0xF9);
            if now != f9_op_before {
                return Err(v("address-map", i, format!("{:?} changed what read(0xF9) (interrupt status) returns: 0x{:02X} -> 0x{:02X}", op, f9_op_before, now)));
            }
        }
        // "a read of 0xF9 returns the interrupt status": a key interrupt that is latched and waiting
        // to be taken must show as pending there (bit 4), whatever else the register holds
        if m.signals().interrupt_flipflop_1() {
            ctx.cov.probe("status-register-read-with-key-interrupt-latched");
            let st = m.bus().read(0xF9);
            if st & 0x10 == 0 {
                return Err(v("interrupt-status", i, format!("after {:?}: a key interrupt is latched (waiting to be taken) but read(0xF9) = 0x{:02X} does not show it as pending (bit 4)", op, st)));
            }
        }
        let nv_after = no_value_reads(&m);
        if nv_after != nv_before {
            let k = (0..7).find(|k| nv_after[*k] != nv_before[*k]).unwrap();
            return Err(v("alias", i, format!("{:?} changed what read(0x{:02X}) returns: 0x{:02X} -> 0x{:02X}", op, NO_VALUE_ADDRS[k], nv_before[k], nv_after[k])));
        }
        ctx.tr(mix(i as u64, m.bus().read(0xFE) as u64));
    }
    Ok(())
}

fn run_single_writes(byte: u8, ctx: &mut Ctx) -> Result<(), Violation> {
    let nv0 = no_value_reads(&fresh().0);
    for a in 0..=255u8 {
        let (mut m, mut rf) = fresh();
        // distinct background so that leaks are visible
        for i in 0..240u8 {
            let x = i.wrapping_mul(37).wrapping_add(11);
            m.raw_mut().bus_mut().memory_mut()[i as usize] = x;
            rf.ram[i as usize] = x;
        }
        for (i, x) in [0x3Cu8, 0x5A, 0x69, 0x96].iter().enumerate() {
            let s = Stim::InReg(i as u8, *x);
            s.apply(&mut m);
            ref_apply_env(&mut rf, &s);
        }
        let mem_before = *m.bus().memory();
        let bb = rf.board.clone();
        let _ = m.raw_mut().bus_mut().write(a, byte);
        rf.poke(a, byte);
        adopt(&m, &mut rf, &bb, a, byte);
        if a >= 0xF0 && *m.bus().memory() != mem_before {
            return Err(v("io-write-leaks-into-ram", a as usize, format!("write(0x{:02X}, 0x{:02X}) changed RAM", a, byte)));
        }
        for r in 0..=255u8 {
            read_is_pure(&m, r).map_err(|e| v("read-side-effect", a as usize, e))?;
        }
        if let Some(d) = map_diff(&m, &rf) {
            return Err(v("address-map", a as usize, format!("after write(0x{:02X}, 0x{:02X}): {}", a, byte, d)));
        }
        if no_value_reads(&m) != nv0 {
            return Err(v("alias", a as usize, format!("RAM pattern + write(0x{:02X}, 0x{:02X}) changed what reads of 0xF4-0xF8/0xFA/0xFB return: {:02X?} -> {:02X?}", a, byte, nv0, no_value_reads(&m))));
        }
        ctx.cov.extra("single-write-cases", 1);
    }
    ctx.cov.distinct(mix(77, byte as u64));
    Ok(())
}

fn run_pairs(a1: u8, ctx: &mut Ctx) -> Result<(), Violation> {
    for a2 in 0..=255u8 {
        let (mut m, mut rf) = fresh();
        let (v1, v2) = (0xA5u8 ^ a1, 0x5Au8 ^ a2.rotate_left(3));
        let bb = rf.board.clone();
        let _ = m.raw_mut().bus_mut().write(a1, v1);
        rf.poke(a1, v1);
        adopt(&m, &mut rf, &bb, a1, v1);
        let bb = rf.board.clone();
        let _ = m.raw_mut().bus_mut().write(a2, v2);
        rf.poke(a2, v2);
        adopt(&m, &mut rf, &bb, a2, v2);
        if let Some(d) = map_diff(&m, &rf) {
            return Err(v("address-map", a2 as usize, format!("after write(0x{:02X}, 0x{:02X}) then write(0x{:02X}, 0x{:02X}): {}", a1, v1, a2, v2, d)));
        }
        ctx.cov.extra("write-pair-cases", 1);
    }
    ctx.cov.distinct(mix(78, a1 as u64));
    Ok(())
}

fn any_addr(rng: &mut Rng) -> u8 {
    match rng.below(8) {
        0 | 1 => 0xF0 + rng.below(16) as u8,
        2 => *rng.pick(&[0xEEu8, 0xEF, 0xF0, 0xFB, 0xFC, 0xFF, 0x21, 0x22]),
        _ => rng.u8(),
    }
}

impl Check for C10 {
    type Scn = Scn;
    fn id(&self) -> &'static str {
        "C10"
    }
    fn runs(&self, tier: Tier) -> u64 {
        match tier {
            Tier::Quick => 512 + 40_000,
            Tier::Thorough => 512 + 30_000_000,
        }
    }
    fn generate(&self, rng: &mut Rng, _tier: Tier, idx: u64) -> Scn {
        if idx < 256 {
            return Scn::SingleWrites(idx as u8);
        }
        if idx < 512 {
            return Scn::Pairs((idx - 256) as u8);
        }
        let n = 4 + rng.usize(60);
        let ops = (0..n)
            .map(|_| match rng.below(16) {
                0..=3 => {
                    let a = any_addr(rng);
                    // timer / UART / mask registers: half of the values from the corners of their bit fields
                    let val = if a >= 0xF9 && rng.bool() { *rng.pick(&[0u8, 1, 2, 3, 0x10, 0x80, 0x90, 0xB0, 0xD0, 0xF0, 0xFF, 0x7F]) } else { rng.u8() };
                    Op::S(Stim::BusWrite(a, val))
                }
                4..=6 => Op::S(Stim::BusRead(any_addr(rng))),
                7..=9 => Op::CpuWrite(any_addr(rng), rng.u8(), rng.below(4) as u8),
                10 => Op::CpuRead(any_addr(rng), rng.below(4) as u8),
                11 => {
                    if rng.bool() {
                        Op::CpuRead(any_addr(rng), rng.below(4) as u8)
                    } else {
                        Op::CpuReadRace(rng.below(5) as u8, rng.below(4) as u8, rng.below(26) as u8, rng.u8())
                    }
                }
                12 => Op::S(Stim::InReg(rng.below(4) as u8, rng.u8())),
                13 => Op::S(Stim::Di(rng.u8())),
                14 => Op::S(Stim::KeyInt),
                _ => match rng.below(3) {
                    0 => Op::S(Stim::Jumper(1 + rng.below(2) as u8, rng.bool())),
                    1 => Op::S(Stim::Uio(1 + rng.below(3) as u8, rng.bool())),
                    _ => Op::S(Stim::Volt(rng.below(3) as u8, (rng.below(600) as f32 / 100.0).to_bits())),
                },
            })
            .collect();
        let mut ops: Vec<Op> = ops;
        if rng.chance(1, 8) {
            // timer-configuration bundle: control byte, divider and interrupt mask from the corners of
            // their bit fields, in a seeded order, then a look at the status register
            let at = rng.usize(ops.len() + 1);
            let mut b = vec![
                Op::S(Stim::BusWrite(0xFD, *rng.pick(&[0x90u8, 0xB0, 0xD0, 0xF0, 0x80, 0x10, 0x91, 0xFF]))),
                Op::S(Stim::BusWrite(0xFC, *rng.pick(&[0u8, 1, 1, 2, 0xFF]))),
                Op::S(Stim::BusWrite(0xF9, *rng.pick(&[0u8, 1, 2, 3, 0x3F, 0xFF]))),
            ];
            let k = rng.usize(3);
            b.swap(0, k);
            let k = 1 + rng.usize(2);
            b.swap(1, k);
            b.push(Op::S(Stim::BusRead(0xF9)));
            for (k, o) in b.iter().enumerate() {
                ops.insert(at + k, o.clone());
            }
        }
        if rng.chance(1, 6) {
            // interrupt-mask bundle: enable, press, rewrite the mask (with or without the key bit), press
            let at = rng.usize(ops.len() + 1);
            let bundle = [
                Op::S(Stim::BusWrite(0xF9, 1 | (rng.u8() & 0x3E))),
                Op::S(Stim::KeyInt),
                Op::S(Stim::BusWrite(0xF9, if rng.bool() { rng.u8() & 0x3E } else { rng.u8() })),
                Op::S(Stim::KeyInt),
                Op::S(Stim::BusRead(0xF9)),
            ];
            for (k, o) in bundle.iter().enumerate() {
                ops.insert(at + k, o.clone());
            }
        }
        Scn::History(ops)
    }
    fn execute(&self, scn: &Scn, ctx: &mut Ctx) -> Result<(), Violation> {
        match scn {
            Scn::History(ops) => run_history(ops, ctx),
            Scn::SingleWrites(b) => run_single_writes(*b, ctx),
            Scn::Pairs(a) => run_pairs(*a, ctx),
        }
    }
    fn shrink(&self, scn: &Scn, v: &Violation) -> Vec<Scn> {
        let mut out = vec![];
        if let Scn::History(ops) = scn {
            if let Some(i) = v.detail.strip_prefix("op#=").and_then(|s| s.split(' ').next()).and_then(|s| s.parse::<usize>().ok()) {
                if i + 1 < ops.len() {
                    out.push(Scn::History(ops[..=i].to_vec()));
                }
            }
            for i in 0..ops.len() {
                let mut c = ops.clone();
                c.remove(i);
                out.push(Scn::History(c));
            }
            for i in 0..ops.len() {
                match &ops[i] {
                    Op::CpuWrite(a, val, m) if *m != 0 => {
                        let mut c = ops.clone();
                        c[i] = Op::CpuWrite(*a, *val, 0);
                        out.push(Scn::History(c));
                    }
                    Op::CpuWrite(a, val, _) => {
                        let mut c = ops.clone();
                        c[i] = Op::S(Stim::BusWrite(*a, *val));
                        out.push(Scn::History(c));
                    }
                    Op::CpuRead(a, _) => {
                        let mut c = ops.clone();
                        c[i] = Op::S(Stim::BusRead(*a));
                        out.push(Scn::History(c));
                    }
                    Op::CpuReadRace(r, md, k, val) if *md != 0 => {
                        let mut c = ops.clone();
                        c[i] = Op::CpuReadRace(*r, 0, *k, *val);
                        out.push(Scn::History(c));
                    }
                    _ => {}
                }
            }
        }
        out
    }
    fn rule(&self) -> String {
        "Swept: every address x every byte value as a single direct write followed by a purity-checked read of all 256 addresses and a whole-map comparison (256 x 256 cases); every ordered pair of write addresses (65 536). Sampled: histories of 4-63 operations mixing direct bus writes/reads, CPU stores/loads through the four addressing modes (absolute, (R), (R+), ((R+))) to arbitrary addresses, input-register / board-input setters and key presses, compared with R-BUS after every operation. distinct = distinct (party, operation kind, addressing mode, address class) tuples plus sweep slices.".into()
    }
    fn assumptions(&self) -> Vec<String> {
        vec![
            "R-BUS: 240-byte RAM map, input registers as last set from outside, output registers / MICR bit 0 / board ports as last written; board status via R-BOARD with unspecified bits masked".into(),
            "reads of 0xF2, 0xF4-0xFB are only checked for purity and non-interference (their value is C14's business or specified nowhere); read(0xF9) must be unaffected by writes to 0xF9".into(),
            "helper programs occupy 0x00-0x20; CPU accesses to that scratch area are skipped".into(),
        ]
    }
    fn components(&self) -> Value {
        json!({"Bus::read / Bus::write decoders, Board, CPU (helper programs)": "real", "R-BUS / R-BOARD, scheduler, PRNG": "harness"})
    }
    fn sample(&self, s: &Scn) -> Value {
        match s {
            Scn::History(ops) => json!({"history": ops.iter().take(12).collect::<Vec<_>>(), "len": ops.len()}),
            o => serde_json::to_value(o).unwrap(),
        }
    }
    fn must_fire(&self, _tier: Tier) -> Vec<String> {
        ["BUSOP-WRITE", "BUSOP-READ", "CPU-WRITE", "CPU-READ", "IN-REG", "K-INT"].iter().map(|s| s.to_string()).collect()
    }
    fn exhaustive_dims(&self, _tier: Tier) -> Vec<String> {
        vec!["address 0..255 x byte 0..255 for single writes, each followed by reads of all 256 addresses".into(), "ordered pairs of write addresses (65 536)".into()]
    }
}
