//! C17: the interactive session survives any key input; commands have their documented effect.
//! Event-driven front end under simulation: the real `Tui` (event dispatch, line editor, nom
//! command parser, `Interface` and all widgets) is driven headlessly through the guarded
//! `verif_frame` hook with scripted terminal events, drawing into tui-rs's `TestBackend` whose
//! size the simulator changes between frames. Stubs: terminal backend, event source, the outer
//! loop shell of `Tui::run` (sleep / Instant / frame pacing).
use crate::args::{InitialMachineConfiguration, InteractiveArgs};
use crate::driver::{guard, mix, verif_dir, Check, Ctx, Tier, Violation};
use crate::prng::Rng;
use crate::textgen;
use crate::tui::events::{verif_inject, Events};
use crate::tui::{Part, Tui};
use crossterm::event::{Event, KeyCode, KeyEvent, KeyModifiers, MouseButton, MouseEvent};
use emulator_2a_lib::compiler::Translator;
use emulator_2a_lib::machine::{Machine, StepMode};
use serde::{Deserialize, Serialize};
use serde_json::{json, Value};
use std::sync::OnceLock;
use tui::backend::TestBackend;
use tui::style::Color;
use tui::Terminal;

pub struct C17;

#[derive(Clone, Debug, PartialEq, Serialize, Deserialize)]
pub enum Ev {
    Char(char),
    Ctrl(char),
    /// Enter Tab BackTab Left Right Up Down Home End Backspace Delete Esc Insert PageUp PageDown Null
    Key(String),
    F(u8),
    /// an editing key or character with modifier keys held (bit 0 SHIFT, bit 1 CONTROL, bit 2 ALT):
    /// exercised for crash freedom, its effect is not judged
    Mod(String, u8),
    Mouse,
    ResizeEvent(u16, u16),
    /// the terminal window changes size (new TestBackend)
    Resize(u16, u16),
    /// frames without an event
    Idle(u8),
    /// type the characters of the line, then Enter
    Line(String),
}

#[derive(Clone, Debug, Serialize, Deserialize)]
pub struct Scn {
    pub w: u16,
    pub h: u16,
    pub preload: bool,
    pub autorun: u32,
    pub events: Vec<Ev>,
    /// initial machine configuration the session is started with (--fc --fd --fe --ff --di1 --j1)
    #[serde(default)]
    pub init: [u8; 6],
}

fn v(oracle: &str, i: usize, d: String) -> Violation {
    Violation::new("C17", oracle, format!("event#={} {}", i, d))
}

// ------------------------------------------------------------------------------------------------
// R-CMD: recogniser of the documented command lines

#[derive(Clone, Debug, PartialEq)]
pub enum Effect {
    Load(String),
    SetIn(u8, u8),
    SetIrg(u8),
    SetTemp(f32),
    SetI1(f32),
    SetI2(f32),
    SetJ(u8, bool),
    SetUio(u8, bool),
    Show(bool), // true = memory
    Next(usize),
    Quit,
}

#[derive(Clone, Debug, PartialEq)]
pub enum Verdict {
    Effect(Effect),
    Reject,
    Unspecified,
}

fn is_ws(c: char) -> bool {
    c == ' ' || c == '\t'
}

/// split off an ASCII-case-insensitive keyword; returns the rest
fn kw<'a>(s: &'a str, k: &str) -> Option<&'a str> {
    if s.len() >= k.len() && s.is_char_boundary(k.len()) && s[..k.len()].eq_ignore_ascii_case(k) {
        Some(&s[k.len()..])
    } else {
        None
    }
}
fn skip_ws(s: &str) -> &str {
    s.trim_start_matches(is_ws)
}
fn need_ws(s: &str) -> Option<&str> {
    if s.starts_with(is_ws) {
        Some(skip_ws(s))
    } else {
        None
    }
}

enum Num {
    Ok(u8),
    /// one lexical number token that is not a valid byte: must be rejected, never truncated
    Bad,
    /// spelling the documentation does not cover
    Odd,
    NotANumber,
}

fn byte_token(tok: &str) -> Num {
    if tok.is_empty() {
        return Num::NotANumber;
    }
    if let Some(h) = tok.strip_prefix("0x") {
        if !h.is_empty() && h.chars().all(|c| c.is_ascii_hexdigit()) {
            return match u32::from_str_radix(h, 16) {
                Ok(n) if n <= 255 => Num::Ok(n as u8),
                _ => Num::Bad,
            };
        }
        return if h.chars().all(|c| c.is_ascii_alphanumeric()) { Num::Bad } else { Num::Odd };
    }
    if let Some(b) = tok.strip_prefix("0b") {
        if !b.is_empty() && b.chars().all(|c| c == '0' || c == '1') {
            return match u32::from_str_radix(b, 2) {
                Ok(n) if n <= 255 => Num::Ok(n as u8),
                _ => Num::Bad,
            };
        }
        return if b.chars().all(|c| c.is_ascii_digit()) { Num::Bad } else { Num::Odd };
    }
    if tok.starts_with("0X") || tok.starts_with("0B") {
        return Num::Odd;
    }
    if tok.chars().all(|c| c.is_ascii_digit()) {
        return match tok.parse::<u32>() {
            Ok(n) if n <= 255 => Num::Ok(n as u8),
            _ => Num::Bad,
        };
    }
    if tok.chars().next().map(|c| c.is_ascii_digit()).unwrap_or(false) {
        return Num::Odd;
    }
    Num::NotANumber
}

/// the value part: first token, and whether anything follows it
fn value_and_rest(s: &str) -> (&str, &str) {
    let end = s.find(is_ws).unwrap_or(s.len());
    (&s[..end], skip_ws(&s[end..]))
}

fn byte_cmd(rest: &str, mk: impl Fn(u8) -> Effect) -> Verdict {
    let (tok, extra) = value_and_rest(rest);
    match byte_token(tok) {
        Num::Ok(n) => {
            if extra.is_empty() {
                Verdict::Effect(mk(n))
            } else {
                Verdict::Unspecified
            }
        }
        Num::Bad => Verdict::Reject,
        Num::Odd => Verdict::Unspecified,
        Num::NotANumber => Verdict::Reject,
    }
}

fn float_cmd(rest: &str, mk: impl Fn(f32) -> Effect) -> Verdict {
    let (tok, extra) = value_and_rest(rest);
    let plain = {
        let mut parts = tok.splitn(2, '.');
        let a = parts.next().unwrap_or("");
        let b = parts.next();
        !a.is_empty() && a.chars().all(|c| c.is_ascii_digit()) && b.map(|b| !b.is_empty() && b.chars().all(|c| c.is_ascii_digit())).unwrap_or(true)
    };
    if plain && tok.len() <= 12 {
        if !extra.is_empty() {
            return Verdict::Unspecified;
        }
        return match tok.parse::<f32>() {
            Ok(f) => Verdict::Effect(mk(f)),
            Err(_) => Verdict::Unspecified,
        };
    }
    let numberish = tok.chars().next().map(|c| c.is_ascii_digit() || c == '.' || c == '-' || c == '+').unwrap_or(false)
        || tok.eq_ignore_ascii_case("inf")
        || tok.eq_ignore_ascii_case("nan")
        || tok.eq_ignore_ascii_case("infinity");
    if numberish {
        Verdict::Unspecified
    } else {
        Verdict::Reject
    }
}

/// after a complete keyword-only command: nothing / whitespace-separated junk / attached junk
fn tail(rest: &str, e: Effect) -> Verdict {
    if rest.is_empty() {
        Verdict::Effect(e)
    } else if skip_ws(rest).is_empty() {
        Verdict::Effect(e)
    } else {
        Verdict::Unspecified
    }
}

pub fn r_cmd(line: &str) -> Verdict {
    let s = skip_ws(line);
    // load PATH
    if let Some(r) = kw(s, "load") {
        return match need_ws(r) {
            Some(path) if !path.is_empty() => {
                if path.ends_with(is_ws) {
                    Verdict::Unspecified
                } else {
                    Verdict::Effect(Effect::Load(path.to_string()))
                }
            }
            Some(_) => Verdict::Reject,
            None if r.is_empty() => Verdict::Reject,
            None => Verdict::Reject,
        };
    }
    if let Some(r) = kw(s, "quit") {
        return tail(r, Effect::Quit);
    }
    if kw(s, "exit").is_some() {
        return Verdict::Unspecified; // accepted by the tree, not documented
    }
    if let Some(r) = kw(s, "next") {
        if skip_ws(r).is_empty() {
            return Verdict::Effect(Effect::Next(1));
        }
        return match need_ws(r) {
            Some(a) => {
                let (tok, extra) = value_and_rest(a);
                if !tok.is_empty() && tok.chars().all(|c| c.is_ascii_digit()) {
                    match tok.parse::<usize>() {
                        Ok(n) if n <= 10_000_000 && extra.is_empty() => Verdict::Effect(Effect::Next(n)),
                        _ => Verdict::Unspecified,
                    }
                } else {
                    Verdict::Unspecified
                }
            }
            None => Verdict::Unspecified,
        };
    }
    if let Some(r) = kw(s, "show") {
        return match need_ws(r) {
            Some(a) => {
                if let Some(t) = kw(a, "register") {
                    tail(t, Effect::Show(false))
                } else if let Some(t) = kw(a, "memory") {
                    tail(t, Effect::Show(true))
                } else {
                    Verdict::Reject
                }
            }
            None => Verdict::Reject,
        };
    }
    // [set] FC..FF = v
    let input_reg = |a: &str| -> Option<Verdict> {
        for (i, name) in ["fc", "fd", "fe", "ff"].iter().enumerate() {
            if let Some(t) = kw(a, name) {
                let t = skip_ws(t);
                return Some(match t.strip_prefix('=') {
                    Some(val) => byte_cmd(skip_ws(val), |n| Effect::SetIn(i as u8, n)),
                    None => Verdict::Reject,
                });
            }
        }
        None
    };
    if let Some(vd) = input_reg(s) {
        return vd;
    }
    for (word, on) in [("unset", false), ("set", true)] {
        if let Some(r) = kw(s, word) {
            let a = match need_ws(r) {
                Some(a) => a,
                None => return Verdict::Reject,
            };
            for (name, e) in [("j1", Effect::SetJ(1, on)), ("j2", Effect::SetJ(2, on)), ("uio1", Effect::SetUio(1, on)), ("uio2", Effect::SetUio(2, on)), ("uio3", Effect::SetUio(3, on))] {
                if let Some(t) = kw(a, name) {
                    return tail(t, e);
                }
            }
            if !on {
                return Verdict::Reject;
            }
            if let Some(vd) = input_reg(a) {
                return vd;
            }
            fn assign(t: &str) -> Option<&str> {
                skip_ws(t).strip_prefix('=').map(skip_ws)
            }
            if let Some(t) = kw(a, "irg") {
                return match assign(t) {
                    Some(val) => byte_cmd(val, Effect::SetIrg),
                    None => Verdict::Reject,
                };
            }
            if let Some(t) = kw(a, "temp") {
                return match assign(t) {
                    Some(val) => float_cmd(val, Effect::SetTemp),
                    None => Verdict::Reject,
                };
            }
            if let Some(t) = kw(a, "i1") {
                return match assign(t) {
                    Some(val) => float_cmd(val, Effect::SetI1),
                    None => Verdict::Reject,
                };
            }
            if let Some(t) = kw(a, "i2") {
                return match assign(t) {
                    Some(val) => float_cmd(val, Effect::SetI2),
                    None => Verdict::Reject,
                };
            }
            return Verdict::Reject;
        }
    }
    Verdict::Reject
}

// ------------------------------------------------------------------------------------------------

static SANDBOX: OnceLock<std::path::PathBuf> = OnceLock::new();

/// One sandbox directory per process, made the current directory (Tab completion and `load`
/// resolve relative paths against it). Content is fixed, so it is part of the deterministic input.
fn sandbox() -> &'static std::path::PathBuf {
    SANDBOX.get_or_init(|| {
        let p = verif_dir().join("sim/sandbox").join(format!("c17-{}", std::process::id()));
        let _ = std::fs::remove_dir_all(&p);
        std::fs::create_dir_all(p.join("progs/sub")).expect("sandbox");
        let mut rng = Rng::new(0xC17);
        for name in ["good.asm", "progs/a.asm", "progs/b.asm", "progs/sub/c.asm", "with space.asm", "ümlaut.asm"] {
            let (src, _) = textgen::program(&mut rng);
            std::fs::write(p.join(name), src).expect("sandbox file");
        }
        // a long program (more lines than any program pane has rows, long labels and comments, data
        // directives) so that the program display has to scroll and clip
        let mut long = String::from("#! mrasm ; a long program\n*STACKSIZE 64\n    LDSP 0xEF\n");
        for i in 0..70 {
            if i % 7 == 0 {
                long.push_str(&format!("A_RATHER_LONG_LABEL_NAME_NUMBER_{}:\n", i));
            }
            long.push_str(&format!("    INC R{} ; comment number {} which is quite a bit longer than the pane is wide, really, it goes on and on\n", i % 3, i));
        }
        long.push_str("LOOPX:\n    JR LOOPX\n    .DB 1, 2, 3, 0x04, 0b101\n    .DW 0x1234, 65535\n");
        std::fs::write(p.join("long.asm"), long).expect("sandbox file");
        // lines whose comment / label part holds multi-byte characters at every column offset
        let mut uml = String::from("#! mrasm\n");
        for i in 0..40 {
            let pad = " ".repeat(i % 13);
            uml.push_str(&format!("    INC R{}{} ; Überlauf prüfen → größer als ä{}ö{}ü ß€ 漢字 {}\n", i % 3, pad, i, i, "é".repeat(i % 9)));
        }
        uml.push_str("    STOP\n");
        std::fs::write(p.join("umlaut-lines.asm"), uml).expect("sandbox file");
        // a source whose faulty line is 1500 characters long (very tall / wide error notification)
        let mut huge = String::from("#! mrasm\n    INC R0\n    FROB ");
        huge.push_str(&"x".repeat(1500));
        huge.push('\n');
        std::fs::write(p.join("verybad.asm"), huge).expect("sandbox file");
        // a program whose path is longer than the info pane is wide
        let (src, _) = textgen::program(&mut rng);
        std::fs::write(p.join("progs/sub/a-rather-long-file-name-for-the-info-pane-of-the-sidebar.asm"), src).expect("sandbox file");
        std::fs::write(p.join("bad.asm"), textgen::broken_program(&mut rng)).expect("sandbox file");
        // two names that differ inside a multi-byte character with the same lead byte (completion)
        std::fs::write(p.join("prog-ä.asm"), "#! mrasm\n    INC R0\n    STOP\n").expect("sandbox file");
        std::fs::write(p.join("prog-ö.asm"), "#! mrasm\n    INC R1\n    STOP\n").expect("sandbox file");
        // uses the stack without LDSP: error stop with SP = 0xFF (outside RAM)
        std::fs::write(p.join("nosp.asm"), "#! mrasm\n    PUSH R0\n    STOP\n").expect("sandbox file");
        // a NOP slide over the whole RAM with the program size limit lifted: the program counter
        // leaves RAM (0xF0..) and the machine error-stops on what the I/O area reads as
        {
            let mut slide = String::from("#! mrasm\n*PROGRAMSIZE 255\n");
            for _ in 0..240 {
                slide.push_str("    NOP\n");
            }
            std::fs::write(p.join("slide.asm"), slide).expect("sandbox file");
        }
        // keeps running and counting (for large `next N`)
        std::fs::write(p.join("count.asm"), "#! mrasm\nLOOP:\n    INC R0\n    ST (0xFF), R0\n    JR LOOP\n").expect("sandbox file");
        // drives both DACs high (comparator bits fall), then stops
        std::fs::write(p.join("dac.asm"), "#! mrasm\n    LD R0, 200\n    ST (0xF0), R0\n    ST (0xF1), R0\n    STOP\n").expect("sandbox file");
        std::fs::write(p.join("nonutf8.asm"), [0x23u8, 0x21, 0x20, 0xFF, 0xFE, 0x0A]).expect("sandbox file");
        std::env::set_current_dir(&p).expect("chdir sandbox");
        p
    })
}

pub const LOAD_TARGETS: [&str; 24] = ["slide.asm", "~", "~é", "~/good.asm", "~nobody/x.asm", "nosp.asm", "count.asm", "prog-ä.asm", "prog-ö.asm", "dac.asm", "umlaut-lines.asm", "verybad.asm", "progs/sub/a-rather-long-file-name-for-the-info-pane-of-the-sidebar.asm", "long.asm", "good.asm", "progs/a.asm", "progs/b.asm", "progs/sub/c.asm", "with space.asm", "ümlaut.asm", "bad.asm", "nonutf8.asm", "missing.asm", "progs"];

fn key_of(name: &str) -> Option<KeyCode> {
    Some(match name {
        "Enter" => KeyCode::Enter,
        "Tab" => KeyCode::Tab,
        "BackTab" => KeyCode::BackTab,
        "Left" => KeyCode::Left,
        "Right" => KeyCode::Right,
        "Up" => KeyCode::Up,
        "Down" => KeyCode::Down,
        "Home" => KeyCode::Home,
        "End" => KeyCode::End,
        "Backspace" => KeyCode::Backspace,
        "Delete" => KeyCode::Delete,
        "Esc" => KeyCode::Esc,
        "Insert" => KeyCode::Insert,
        "PageUp" => KeyCode::PageUp,
        "PageDown" => KeyCode::PageDown,
        "Null" => KeyCode::Null,
        _ => return None,
    })
}

struct Session {
    tui: Tui,
    term: Terminal<TestBackend>,
    w: u16,
    h: u16,
    autorun: u32,
    quit: bool,
}

fn buffer_text(term: &Terminal<TestBackend>) -> u64 {
    let b = term.backend().buffer();
    let mut h = 0u64;
    for c in b.content.iter() {
        for by in c.symbol.bytes() {
            h = h.wrapping_mul(0x100_0000_01B3) ^ by as u64;
        }
    }
    h
}

impl Session {
    fn new_term(w: u16, h: u16) -> Result<Terminal<TestBackend>, String> {
        Terminal::new(TestBackend::new(w, h)).map_err(|e| format!("Terminal::new: {}", e))
    }

    /// the editor invariant, read from the rendered buffer
    fn cursor_check(&self, i: usize) -> Result<(), Violation> {
        if self.w < 76 || self.h < 28 {
            return Ok(());
        }
        // The rendered column equals the logical cursor position only while every character is one
        // cell wide; with wide / zero-width characters the cell arithmetic of the terminal (not the
        // editor's cursor) decides what is visible, so the check is not made there.
        if self.tui.verif_input_field().current().iter().any(|c| unicode_width::UnicodeWidthChar::width(*c) != Some(1) || *c == '█') {
            return Ok(());
        }
        let buf = self.term.backend().buffer();
        let y = self.h - 2;
        let x0 = 1u16;
        let x1 = self.w - 35 - 2; // last column inside the main block
        // the check reads the pinned layout (prompt `> ` at the left of the row above the bottom
        // border); on a tree that draws the field elsewhere it is not made rather than mis-made
        if buf.get(x0, y).symbol != ">" || buf.get(x0 + 1, y).symbol != " " {
            return Ok(());
        }
        let mut cursors: Vec<u16> = vec![];
        for x in x0..=x1 {
            let c = buf.get(x, y);
            if c.style.bg == Color::Yellow || c.symbol == "█" {
                cursors.push(x);
            }
        }
        let text_len = self.tui.verif_input_field().current().len() as u16;
        if cursors.len() != 1 {
            return Err(v("cursor", i, format!("{} cursor cells in the input row (terminal {}x{}, {} characters typed)", cursors.len(), self.w, self.h, text_len)));
        }
        let pos = cursors[0];
        if pos < x0 + 2 {
            return Err(v("cursor", i, format!("cursor drawn at column {} inside the prompt", pos)));
        }
        if (pos - (x0 + 2)) > text_len {
            return Err(v("cursor", i, format!("cursor drawn {} cells after the prompt but the text has only {} characters", pos - (x0 + 2), text_len)));
        }
        // nothing may be drawn outside the main block by the input widget
        Ok(())
    }

    /// one frame with (optionally) one injected event; returns Ok(true) when the session ends
    fn frame(&mut self, ev: Option<Event>, i: usize, what: &str, ctx: &mut Ctx) -> Result<bool, Violation> {
        if let Some(e) = ev {
            verif_inject(e);
        }
        let autorun = self.autorun as u64;
        let (tui, term) = (&mut self.tui, &mut self.term);
        let r = guard(|| tui.verif_frame(term, autorun));
        ctx.cov.extra("frames", 1);
        match r {
            Err((loc, msg)) => Err(v("panic", i, format!("{} at terminal size {}x{}: panic at {}: {}", what, self.w, self.h, loc, msg))),
            Ok(Err(e)) => Err(v("draw-error", i, format!("{}: drawing failed: {}", what, e))),
            Ok(Ok(q)) => Ok(q),
        }
    }
}

fn apply_effect(twin: &mut Machine, e: &Effect) -> Result<bool, ()> {
    match e {
        Effect::SetIn(r, val) => match r {
            0 => { let _ = twin.set_input_fc(*val); }
            1 => { let _ = twin.set_input_fd(*val); }
            2 => { let _ = twin.set_input_fe(*val); }
            _ => { let _ = twin.set_input_ff(*val); }
        },
        Effect::SetIrg(val) => { let _ = twin.set_digital_input1(*val); }
        Effect::SetTemp(f) => { let _ = twin.set_temp(*f); }
        Effect::SetI1(f) => { let _ = twin.set_analog_input1(*f); }
        Effect::SetI2(f) => { let _ = twin.set_analog_input2(*f); }
        Effect::SetJ(n, b) => {
            if *n == 1 {
                twin.set_jumper1(*b)
            } else {
                twin.set_jumper2(*b)
            }
        }
        Effect::SetUio(n, b) => match n {
            1 => { let _ = twin.set_universal_input_output1(*b); }
            2 => { let _ = twin.set_universal_input_output2(*b); }
            _ => { let _ = twin.set_universal_input_output3(*b); }
        },
        Effect::Show(_) | Effect::Quit => {}
        Effect::Next(n) => {
            for _ in 0..*n {
                twin.trigger_key_clock();
            }
        }
        Effect::Load(path) => {
            // real parser + translator are components of the session; the file decides
            match crate::helpers::read_asm_file(path.as_str()) {
                Ok(asm) => { let _ = twin.load(Translator::compile(&asm)); }
                Err(_) => return Err(()),
            }
        }
    }
    Ok(true)
}

fn run(scn: &Scn, ctx: &mut Ctx) -> Result<(), Violation> {
    let _ = sandbox();
    // leftovers of an earlier (panicked) run on this worker thread
    let mut drain = Events::new();
    while drain.next().is_some() {}
    let init = InitialMachineConfiguration { fc: scn.init[0], fd: scn.init[1], fe: scn.init[2], ff: scn.init[3], di1: scn.init[4], j1: scn.init[5] & 1 != 0, ..InitialMachineConfiguration::default() };
    let args = InteractiveArgs { program: if scn.preload { Some(if scn.autorun % 2 == 0 { "long.asm" } else { "good.asm" }.into()) } else { None }, init };
    let tui = guard(|| Tui::new(&args)).map_err(|(l, m)| v("panic", 0, format!("Tui::new: panic at {}: {}", l, m)))?.map_err(|e| v("harness", 0, format!("Tui::new: {}", e)))?;
    let term = Session::new_term(scn.w, scn.h).map_err(|e| v("harness", 0, e))?;
    let mut s = Session { tui, term, w: scn.w, h: scn.h, autorun: scn.autorun, quit: false };
    // first draw
    if s.frame(None, 0, "first frame", ctx)? {
        return Err(v("quit", 0, "session ended without a quit request".into()));
    }
    // expand Line events
    let mut flat: Vec<(usize, Ev)> = vec![];
    let mut submitted = 0u32;
    let _ = &mut submitted;
    // reference for plain typing: the text of the input field while only printable characters (and
    // Enter) have been typed since the field was last empty; None = not tracked (editing keys,
    // completion, history, a notification swallowing the key, control characters)
    let mut typed: Option<String> = Some(String::new());
    // ... extended to a reference line editor: (text, cursor) under characters, Left/Right,
    // Home/End, Backspace/Delete; history and completion keys end the tracking until the field is
    // empty again (their result depends on history / directory contents the reference does not model)
    let mut cursor: usize = 0;
    for (i, e) in scn.events.iter().enumerate() {
        match e {
            Ev::Line(l) => {
                for c in l.chars() {
                    flat.push((i, Ev::Char(c)));
                }
                flat.push((i, Ev::Key("Enter".into())));
            }
            o => flat.push((i, o.clone())),
        }
    }
    if submitted > 1000 {
        ctx.cov.probe("more-than-1000-lines-submitted-in-one-session");
    }
    for (i, e) in flat.iter() {
        let i = *i;
        if s.quit {
            break;
        }
        let before: Machine = s.tui.machine().machine.clone();
        let auto_before = s.tui.machine().auto_run_mode;
        let part_before = s.tui.machine().part;
        let notif_before = s.tui.verif_notification().is_some();
        let input_before: String = s.tui.verif_input_field().current().iter().collect();
        let what = format!("{:?} with input {:?}", e, input_before);
        if let Ev::Char(c) = e {
            use unicode_width::UnicodeWidthStr;
            if unicode_width::UnicodeWidthChar::width(*c).unwrap_or(0) > 1 && s.w >= 76 && s.h >= 28 && input_before.width() + 2 > (s.w as usize).saturating_sub(37) {
                ctx.cov.probe("wide-character-typed-into-a-full-input-field");
            }
        }
        // workload restriction: the simulated user does not submit `next N` with an N that would
        // keep the session busy for minutes (the command is executed faithfully, N clock triggers;
        // that is slow, not wrong). Such an Enter is dropped from the script.
        if matches!(e, Ev::Key(k) if k == "Enter") {
            let t = input_before.trim_matches(|c| c == ' ' || c == '\t').to_ascii_lowercase();
            if let Some(rest) = t.strip_prefix("next") {
                let digits: String = rest.trim_start_matches(|c| c == ' ' || c == '\t').chars().take_while(|c| c.is_ascii_digit()).collect();
                // (in Real step mode a clock trigger is one edge: up to 8 M of them are affordable)
                let cap: u64 = if matches!(s.tui.machine().machine.step_mode(), StepMode::Real) && s.autorun == 0 { 8_000_000 } else { 20_000 };
                if digits.len() > 7 || digits.parse::<u64>().map(|n| n > cap).unwrap_or(false) {
                    ctx.cov.probe("enter-dropped(unbounded next N)");
                    continue;
                }
            }
        }
        if crate::lockstep::TRACE.load(std::sync::atomic::Ordering::Relaxed) {
            eprintln!("  event#{} {}", i, what);
        }
        let event = match e {
            Ev::Char(c) => Some(Event::Key(KeyEvent { code: KeyCode::Char(*c), modifiers: KeyModifiers::empty() })),
            Ev::Ctrl(c) => Some(Event::Key(KeyEvent { code: KeyCode::Char(*c), modifiers: KeyModifiers::CONTROL })),
            Ev::Key(k) => key_of(k).map(|code| Event::Key(KeyEvent { code, modifiers: KeyModifiers::empty() })),
            Ev::F(n) => Some(Event::Key(KeyEvent { code: KeyCode::F(*n), modifiers: KeyModifiers::empty() })),
            Ev::Mod(k, bits) => {
                let mut mods = KeyModifiers::empty();
                if bits & 1 != 0 {
                    mods |= KeyModifiers::SHIFT;
                }
                if bits & 2 != 0 {
                    mods |= KeyModifiers::CONTROL;
                }
                if bits & 4 != 0 {
                    mods |= KeyModifiers::ALT;
                }
                let code = if k.chars().count() == 1 { Some(KeyCode::Char(k.chars().next().unwrap())) } else { key_of(k) };
                code.map(|code| Event::Key(KeyEvent { code, modifiers: mods }))
            }
            Ev::Mouse => Some(Event::Mouse(MouseEvent::Down(MouseButton::Left, 3, 3, KeyModifiers::empty()))),
            Ev::ResizeEvent(w, h) => Some(Event::Resize(*w, *h)),
            Ev::Resize(w, h) => {
                s.w = (*w).max(1);
                s.h = (*h).max(1);
                s.term = Session::new_term(s.w, s.h).map_err(|e| v("harness", i, e))?;
                ctx.cov.fault("RESIZE");
                ctx.cov.set("terminal-size-class", mix((s.w >= 76) as u64 + (s.w >= 77) as u64 + (s.w > 120) as u64, (s.h >= 28) as u64 + (s.h >= 29) as u64 + (s.h > 50) as u64));
                None
            }
            Ev::Idle(n) => {
                for _ in 0..*n {
                    let b2 = s.tui.machine().machine.clone();
                    let auto = s.tui.machine().auto_run_mode;
                    if s.frame(None, i, "idle frame", ctx)? {
                        return Err(v("quit", i, "session ended on an idle frame".into()));
                    }
                    let mut twin = b2;
                    if auto {
                        for _ in 0..s.autorun {
                            twin.trigger_key_clock();
                        }
                    }
                    if s.tui.machine().machine != twin {
                        return Err(v("autorun", i, "an idle frame changed the machine other than by the auto-run clock triggers".into()));
                    }
                }
                continue;
            }
            Ev::Line(_) => unreachable!(),
        };
        ctx.cov.fault(match e {
            Ev::Char(c) if c.is_ascii() => "KEY-ASCII",
            Ev::Char(_) => "KEY-MULTIBYTE",
            Ev::Ctrl(_) => "KEY-CTRL",
            Ev::Key(_) => "KEY-EDIT",
            Ev::F(_) => "KEY-UNKNOWN",
            Ev::Mod(..) => "KEY-WITH-MODIFIERS",
            Ev::Mouse => "MOUSE",
            Ev::ResizeEvent(..) => "RESIZE-EVENT",
            _ => "OTHER",
        });
        // abstract editor state x event kind
        {
            let f = s.tui.verif_input_field();
            let est = (f.current().is_empty() as u64) | ((notif_before as u64) << 1) | ((f.current().len().min(80) as u64 / 20) << 2);
            let kind = match e {
                Ev::Char(c) => 1 + c.is_ascii() as u64,
                Ev::Ctrl(c) => 10 + (*c as u64 % 16),
                Ev::Key(k) => 30 + k.len() as u64 * 7 + k.as_bytes()[0] as u64,
                Ev::F(_) => 3,
                Ev::Mod(_, b) => 40 + *b as u64,
                _ => 4,
            };
            ctx.cov.distinct(mix(est, kind));
        }
        let quit = s.frame(event, i, &what, ctx)?;
        match e {
            Ev::Char(c) => {
                if notif_before || c.is_control() {
                    typed = None;
                } else if let Some(t) = typed.as_mut() {
                    let mut cs: Vec<char> = t.chars().collect();
                    let at = cursor.min(cs.len());
                    cs.insert(at, *c);
                    cursor = at + 1;
                    *t = cs.into_iter().collect();
                }
            }
            Ev::Key(k) if typed.is_some() && !notif_before && matches!(k.as_str(), "Left" | "Right" | "Home" | "End" | "Backspace" | "Delete") => {
                let t = typed.as_mut().unwrap();
                let mut cs: Vec<char> = t.chars().collect();
                cursor = cursor.min(cs.len());
                match k.as_str() {
                    "Left" => cursor = cursor.saturating_sub(1),
                    "Right" => cursor = (cursor + 1).min(cs.len()),
                    "Home" => cursor = 0,
                    "End" => cursor = cs.len(),
                    "Backspace" => {
                        if cursor > 0 {
                            cs.remove(cursor - 1);
                            cursor -= 1;
                        }
                    }
                    _ => {
                        if cursor < cs.len() {
                            cs.remove(cursor);
                        }
                    }
                }
                *t = cs.into_iter().collect();
                ctx.cov.probe("editor-reference:editing-key");
            }
            Ev::Mouse | Ev::Resize(..) | Ev::ResizeEvent(..) | Ev::Idle(_) => {}
            _ => typed = None,
        }
        if !quit {
            let now: String = s.tui.verif_input_field().current().iter().collect();
            if let Some(t) = &typed {
                ctx.cov.probe("typed-text-compared");
                if *t != now {
                    let k = t.chars().zip(now.chars()).take_while(|(a, b)| a == b).count();
                    return Err(v(
                        "typed-text",
                        i,
                        format!(
                            "{}: after typing / editing (characters, Left/Right, Home/End, Backspace/Delete from the empty field) the reference editor holds {} characters, the field {} (first difference at character {}): a submitted line would not be the line that was typed",
                            what, t.chars().count(), now.chars().count(), k
                        ),
                    ));
                }
            }
            if now.is_empty() {
                typed = Some(String::new());
                cursor = 0;
            }
        }
        if !quit {
            // (a frame that ends the session does not draw)
            s.cursor_check(i)?;
        }
        // what should have happened?
        let mut twin = before.clone();
        let mut expect_quit = false;
        let mut expect_part = part_before;
        let mut expect_auto = auto_before;
        let mut checked = true;
        if matches!(e, Ev::Mod(..)) {
            // modifier combinations have no documented meaning: crash freedom only
            checked = false;
        } else if notif_before && matches!(e, Ev::Char(_) | Ev::Ctrl(_) | Ev::Key(_) | Ev::F(_)) {
            // a shown notification swallows the next key (tree behaviour the properties do not mention): not judged
            checked = false;
        } else {
            match e {
                Ev::Ctrl('c') => expect_quit = true,
                Ev::Ctrl('a') => expect_auto = !auto_before,
                Ev::Ctrl('w') => {
                    let m = if matches!(twin.step_mode(), StepMode::Real) { StepMode::Assembly } else { StepMode::Real };
                    twin.set_step_mode(m)
                }
                Ev::Ctrl('e') => { let _ = twin.trigger_key_interrupt(); }
                Ev::Ctrl('r') => { let _ = twin.cpu_reset(); }
                Ev::Ctrl('l') => { let _ = twin.trigger_key_continue(); }
                Ev::Key(k) if k == "Enter" => {
                    if input_before.is_empty() {
                        twin.trigger_key_clock();
                        ctx.cov.probe("enter-on-empty-line=clock");
                    } else {
                        let verdict = r_cmd(&input_before);
                        if matches!(verdict, Verdict::Effect(Effect::SetIn(..)) | Verdict::Effect(Effect::SetIrg(_))) {
                            let val = input_before.rsplit('=').next().unwrap_or("").trim_matches(|c| c == ' ' || c == '\t').to_ascii_lowercase();
                            let digits = val.trim_start_matches("0x").trim_start_matches("0b");
                            if digits.len() > 1 && digits.starts_with('0') && (val.starts_with("0x") && digits.len() > 2 || val.starts_with("0b") && digits.len() > 8 || !val.starts_with("0x") && !val.starts_with("0b")) {
                                ctx.cov.probe("zero-padded-byte-value-accepted");
                            }
                        }
                        ctx.cov.set("command-kind-x-verdict", mix(
                            0,
                            match &verdict {
                                Verdict::Effect(Effect::Load(_)) => 1, Verdict::Effect(Effect::SetIn(..)) => 2, Verdict::Effect(Effect::SetIrg(_)) => 3,
                                Verdict::Effect(Effect::SetTemp(_)) => 4, Verdict::Effect(Effect::SetI1(_)) => 5, Verdict::Effect(Effect::SetI2(_)) => 6,
                                Verdict::Effect(Effect::SetJ(..)) => 7, Verdict::Effect(Effect::SetUio(..)) => 8, Verdict::Effect(Effect::Show(_)) => 9,
                                Verdict::Effect(Effect::Next(_)) => 10, Verdict::Effect(Effect::Quit) => 11, Verdict::Reject => 12, Verdict::Unspecified => 13,
                            },
                        ));
                        match verdict {
                            Verdict::Effect(eff) => {
                                ctx.cov.probe("command-executed");
                                match apply_effect(&mut twin, &eff) {
                                    Ok(_) => {
                                        if let Effect::Show(mem) = eff {
                                            expect_part = if mem { Part::Memory } else { Part::RegisterBlock };
                                        }
                                        if eff == Effect::Quit {
                                            expect_quit = true;
                                        }
                                        if let Effect::Load(_) = eff {
                                            ctx.cov.probe("load-succeeded");
                                        }
                                    }
                                    Err(()) => {
                                        // unreadable / unparsable file: rejected with a notification
                                        ctx.cov.probe("load-file-fault");
                                        if s.tui.verif_notification().is_none() {
                                            return Err(v("command", i, format!("`{}`: the file cannot be loaded but no notification is shown", input_before)));
                                        }
                                    }
                                }
                            }
                            Verdict::Reject => {
                                ctx.cov.probe("command-rejected");
                                // (the machine comparison below covers 'did not change the machine')
                                if s.tui.verif_notification().is_none() && !quit {
                                    return Err(v("command", i, format!("`{}` is not a documented command and was not rejected with a notification", input_before)));
                                }
                                if quit {
                                    return Err(v("command", i, format!("`{}` is not a documented command but ended the session", input_before)));
                                }
                            }
                            Verdict::Unspecified => {
                                checked = false;
                            }
                        }
                    }
                }
                _ => {}
            }
        }
        if checked {
            if expect_auto {
                for _ in 0..s.autorun {
                    twin.trigger_key_clock();
                }
            }
            if quit != expect_quit {
                return Err(v("quit", i, format!("{}: session {} although it should {}", what, if quit { "ended" } else { "continues" }, if expect_quit { "end" } else { "continue" })));
            }
            if !quit {
                let after = &s.tui.machine().machine;
                if *after != twin {
                    let (a, b) = (after.registers().content(), twin.registers().content());
                    return Err(v(
                        "command-effect",
                        i,
                        format!(
                            "{}: the session's machine differs from a twin on which the library call of the same name was made (registers {:02X?} vs {:02X?}, inputs {:02X?} vs {:02X?}, step mode {:?} vs {:?})",
                            what, a, b,
                            [after.bus().read(0xFC), after.bus().read(0xFD), after.bus().read(0xFE), after.bus().read(0xFF)],
                            [twin.bus().read(0xFC), twin.bus().read(0xFD), twin.bus().read(0xFE), twin.bus().read(0xFF)],
                            after.step_mode(), twin.step_mode()
                        ),
                    ));
                }
                if s.tui.machine().part != expect_part {
                    return Err(v("command-effect", i, format!("{}: shown part {:?}, expected {:?}", what, s.tui.machine().part, expect_part)));
                }
                if s.tui.machine().auto_run_mode != expect_auto {
                    return Err(v("command-effect", i, format!("{}: auto-run mode {}", what, s.tui.machine().auto_run_mode)));
                }
            }
        }
        if quit {
            s.quit = true;
        }
        if ctx.want_trace {
            let h = mix(buffer_text(&s.term), s.tui.machine().machine.registers().content()[3] as u64);
            ctx.tr(h);
        }
    }
    Ok(())
}

// ------------------------------------------------------------------------------------------------

const FRAGMENTS: [&str; 38] = [
    "load prog-", "load pro", "prog-", "dac.asm", "load ", "set ", "unset ", "show ", "next ", "quit", "FC = ", "FD = ", "FE = ", "FF = ", "IRG = ", "TEMP = ", "I1 = ", "I2 = ", "J1", "J2", "UIO1", "UIO2", "UIO3",
    "memory", "register", "0x", "0b", "255", "256", "1.5", "F", "l", "s", "progs/", "good.asm", " ", "=", "x",
];
const MULTIBYTE: [char; 13] = ['é', 'ß', '→', '漢', '😀', 'ü', 'Ω', '\u{301}', 'İ', 'ı', 'ſ', '\u{212A}', 'ö'];
const EDIT_KEYS: [&str; 11] = ["Enter", "Tab", "BackTab", "Left", "Right", "Up", "Down", "Home", "End", "Backspace", "Delete"];

fn rnd_case(rng: &mut Rng, s: &str) -> String {
    match rng.below(4) {
        0 => s.to_lowercase(),
        1 => s.to_uppercase(),
        2 => s.chars().enumerate().map(|(i, c)| if i % 2 == 0 { c.to_ascii_uppercase() } else { c.to_ascii_lowercase() }).collect(),
        _ => s.to_string(),
    }
}
fn sp(rng: &mut Rng) -> &'static str {
    if rng.chance(1, 16) {
        // Unicode white space is not a separator of the documented command language
        return *rng.pick(&["\u{A0}", "\u{3000}", "\u{2028}", "\u{2003}", " \u{A0}", "\u{85}", "\u{B}", "\u{C}"]);
    }
    *rng.pick(&[" ", " ", "  ", "\t", " \t "])
}
fn osp(rng: &mut Rng) -> &'static str {
    *rng.pick(&["", " ", " ", "  ", "\t"])
}
fn byte_value(rng: &mut Rng) -> String {
    let n: u32 = match rng.below(8) {
        0 => 255,
        1 => 256,
        2 => 0x100 + rng.below(0x300) as u32,
        3 => 0,
        4 => 300 + rng.below(100000) as u32,
        _ => rng.below(256) as u32,
    };
    match rng.below(9) {
        0 | 1 => format!("{}", n),
        // zero-padded spellings: the value counts, not the number of digits
        7 => match rng.below(4) {
            0 => format!("0x{:03X}", n),
            1 => format!("0x{:0w$x}", n, w = 3 + rng.usize(8)),
            2 => format!("{:0w$}", n, w = 4 + rng.usize(4)),
            _ => format!("0b{:0w$b}", n, w = 9 + rng.usize(6)),
        },
        8 => format!("0x{:02X}", n),
        2 | 3 => format!("0x{:X}", n),
        4 => format!("0x{:x}", n),
        5 => format!("0b{:b}", n),
        _ => rng.pick(&["0b102", "0xG1", "12a", "abc", "", "0x", "0b", "-1", "0X10", "1 2", "0b100000000", "0x1FF"]).to_string(),
    }
}
fn float_value(rng: &mut Rng) -> String {
    match rng.below(8) {
        0 => format!("{}", rng.below(7)),
        1..=3 => format!("{}.{}", rng.below(7), rng.below(100)),
        4 => format!("{}.{:03}", rng.below(3), rng.below(1000)),
        5 => rng.pick(&["1e1", "-1", "inf", "NaN", ".5", "5.", "abc", "1,5", "+2.5", "1e40", ""]).to_string(),
        _ => format!("{:.2}", rng.below(600) as f32 / 100.0),
    }
}

/// a complete command line of a documented form (random case, spacing, radix, boundary values, junk)
pub fn command_line(rng: &mut Rng) -> String {
    let mut l = String::new();
    l.push_str(osp(rng));
    match rng.below(16) {
        0..=3 => {
            if rng.bool() {
                l.push_str(&rnd_case(rng, "set"));
                l.push_str(sp(rng));
            }
            l.push_str(&rnd_case(rng, *rng.clone().pick(&["FC", "FD", "FE", "FF"])));
            l.push_str(osp(rng));
            l.push('=');
            l.push_str(osp(rng));
            l.push_str(&byte_value(rng));
        }
        4 => {
            l.push_str(&rnd_case(rng, "set"));
            l.push_str(sp(rng));
            l.push_str(&rnd_case(rng, "IRG"));
            l.push_str(osp(rng));
            l.push('=');
            l.push_str(osp(rng));
            l.push_str(&byte_value(rng));
        }
        5 | 6 => {
            l.push_str(&rnd_case(rng, "set"));
            l.push_str(sp(rng));
            l.push_str(&rnd_case(rng, *rng.clone().pick(&["TEMP", "I1", "I2"])));
            l.push_str(osp(rng));
            l.push('=');
            l.push_str(osp(rng));
            l.push_str(&float_value(rng));
        }
        7 | 8 => {
            l.push_str(&rnd_case(rng, if rng.clone().bool() { "set" } else { "unset" }));
            l.push_str(sp(rng));
            l.push_str(&rnd_case(rng, *rng.clone().pick(&["J1", "J2", "UIO1", "UIO2", "UIO3", "J3", "UIO4", "FC"])));
        }
        9 => {
            l.push_str(&rnd_case(rng, "show"));
            l.push_str(sp(rng));
            l.push_str(&rnd_case(rng, *rng.clone().pick(&["memory", "register", "registers", "mem", ""])));
        }
        10 | 11 => {
            l.push_str(&rnd_case(rng, "next"));
            match rng.below(4) {
                0 => {}
                1 => {
                    l.push_str(sp(rng));
                    l.push_str(&format!("{}", rng.below(40)));
                }
                2 => {
                    l.push_str(sp(rng));
                    l.push_str(&format!("{}", rng.below(3000)));
                }
                _ => {
                    l.push_str(sp(rng));
                    l.push_str(*rng.pick(&["99999999999999999999999", "x", "-1", "0x10", "1.5"]));
                }
            }
        }
        12 | 13 => {
            l.push_str(&rnd_case(rng, "load"));
            l.push_str(sp(rng));
            l.push_str(*rng.pick(&LOAD_TARGETS));
        }
        14 => {
            l.push_str(&rnd_case(rng, *rng.clone().pick(&["quit", "exit", "quit", "q", "quitx"])));
        }
        _ => {
            // not a command at all
            l.push_str(*rng.pick(&["help", "FB = 1", "reset", "é", "set", "unset", "load", "= 5", "FC 5", "set FC", "set TEMP", "漢字", "F", "Fé", "set İ1 = 2", "set İRG = 5", "ſet J1", "SET ı1 = 1", "unſet J1", "\u{212A}", "set UİO1", "qUİT", "İ", "quİ", "QUİ", "exİ", "set UİO", "unset UİO", "set İ = 1.5", "set İR = 5", "show regİste", "FC = 0\u{212A}"]));
        }
    }
    match rng.below(10) {
        0 => l.push_str(sp(rng)),
        1 => {
            l.push_str(sp(rng));
            l.push_str(*rng.pick(&["junk", "= true", "1", ";"]));
        }
        2 => l.push_str(*rng.pick(&["x", "!", "é"])),
        _ => {}
    }
    l
}

/// alphabet of the bounded-exhaustive part: every editing key of the property's quantifier plus one
/// narrow, one two-byte and one double-width character
const ENUM_KEYS: [&str; 14] = ["a", "é", "漢", "Enter", "Tab", "BackTab", "Left", "Right", "Up", "Down", "Home", "End", "Backspace", "Delete"];
const ENUM_STARTS: u64 = 4;

fn enum_len(tier: Tier) -> u32 {
    match tier {
        Tier::Quick => 3,
        Tier::Thorough => 5,
    }
}
fn enum_count(tier: Tier) -> u64 {
    ENUM_STARTS * (ENUM_KEYS.len() as u64).pow(enum_len(tier))
}
/// the idx-th session of the bounded-exhaustive part: one of four editor start states followed by
/// every sequence of `len` keys over ENUM_KEYS (all shorter sequences are prefixes; a frame is
/// drawn and checked after every key)
fn enum_scn(idx: u64, len: u32) -> Scn {
    let start = idx % ENUM_STARTS;
    let mut k = idx / ENUM_STARTS;
    let mut events: Vec<Ev> = vec![];
    let (w, h) = if start < 2 { (100, 40) } else { (76, 28) };
    match start {
        0 => {}
        1 => {
            events.push(Ev::Line("FC = 1".into()));
            events.push(Ev::Line("show memory".into()));
            events.push(Ev::Char('F'));
            events.push(Ev::Char('C'));
        }
        2 => {
            for c in "load pro".chars() {
                events.push(Ev::Char(c));
            }
        }
        _ => {
            events.push(Ev::Line("unset J1".into()));
            for c in "ä漢b".chars() {
                events.push(Ev::Char(c));
            }
            events.push(Ev::Key("Left".into()));
        }
    }
    for _ in 0..len {
        let key = ENUM_KEYS[(k % ENUM_KEYS.len() as u64) as usize];
        k /= ENUM_KEYS.len() as u64;
        events.push(if key.chars().count() == 1 { Ev::Char(key.chars().next().unwrap()) } else { Ev::Key(key.to_string()) });
    }
    Scn { w, h, preload: start == 1, autorun: 0, events, init: [0; 6] }
}

fn random_size(rng: &mut Rng) -> (u16, u16) {
    let w = match rng.below(9) {
        0 => 75,
        1 => 76,
        2 => 77,
        8 => 106 + rng.below(6) as u16,
        3 => 1 + rng.below(75) as u16,
        4 => 200 + rng.below(51) as u16,
        _ => 76 + rng.below(80) as u16,
    };
    let h = match rng.below(8) {
        0 => 27,
        1 => 28,
        2 => 29,
        3 => 1 + rng.below(27) as u16,
        4 => 80 + rng.below(21) as u16,
        _ => 28 + rng.below(30) as u16,
    };
    (w, h)
}

impl Check for C17 {
    type Scn = Scn;
    fn id(&self) -> &'static str {
        "C17"
    }
    fn runs(&self, tier: Tier) -> u64 {
        match tier {
            Tier::Quick => 12_000 + enum_count(tier),
            Tier::Thorough => 600_000 + enum_count(tier),
        }
    }
    fn generate(&self, rng: &mut Rng, tier: Tier, idx: u64) -> Scn {
        if idx < enum_count(tier) {
            return enum_scn(idx, enum_len(tier));
        }
        // scripted families (ordered interplay a random session would rarely produce)
        if idx == enum_count(tier) || (tier == Tier::Thorough && (idx - enum_count(tier)) % 20_000 == 0) {
            // marathon: more than a thousand submitted lines in one session (history growth)
            let mut events = vec![];
            let n = 1001 + rng.below(60);
            for k in 0..n {
                events.push(Ev::Line(match k % 4 {
                    0 => format!("FC = {}", k % 256),
                    1 => format!("fd={}", (k * 7) % 256),
                    2 => format!("set irg = {}", (k * 13) % 256),
                    _ => format!("FE = 0x{:X}", (k * 3) % 256),
                }));
            }
            for _ in 0..6 {
                events.push(Ev::Key("Up".into()));
            }
            events.push(Ev::Key("Enter".into()));
            return Scn { w: 100, h: 40, preload: false, autorun: 0, events, init: [0; 6] };
        }
        let fam_idx = idx - enum_count(tier);
        if fam_idx == 1 || (tier == Tier::Thorough && fam_idx % 20_000 == 1) {
            // a large `next N` on a program that keeps running (Real step mode)
            let n = 7_380_000 + rng.below(600_000);
            let events = vec![Ev::Line("load count.asm".into()), Ev::Line(format!("next {}", n)), Ev::Line("next 3".into())];
            return Scn { w: 100, h: 40, preload: false, autorun: 0, events, init: [0; 6] };
        }
        if fam_idx == 2 || (tier == Tier::Thorough && fam_idx % 20_000 == 2) {
            // a very long line: a zero-padded value of several thousand digits
            let zeros = 4_200 + rng.usize(1_200);
            let line = format!("{} = {}{}", rng.pick(&["FC", "FD", "FE", "FF"]), "0".repeat(zeros), 1 + rng.below(255));
            let events = vec![Ev::Line(line), Ev::Key("Up".into()), Ev::Key("Home".into()), Ev::Key("End".into()), Ev::Key("Enter".into())];
            return Scn { w: 100, h: 40, preload: false, autorun: 0, events, init: [0; 6] };
        }
        if rng.chance(1, 60) {
            // stack used without LDSP (SP leaves RAM), then both views at a large terminal size
            let (w, h) = (100 + rng.below(150) as u16, 30 + rng.below(70) as u16);
            let mut events = vec![];
            if rng.bool() {
                events.push(Ev::Line("load nosp.asm".into()));
                for _ in 0..12 + rng.below(20) {
                    events.push(Ev::Key("Enter".into()));
                }
            } else {
                // program counter outside RAM
                events.push(Ev::Line("load slide.asm".into()));
                events.push(Ev::Line(format!("next {}", 700 + rng.below(200))));
            }
            events.push(Ev::Line("show memory".into()));
            events.push(Ev::Line("show register".into()));
            events.push(Ev::Line(command_line(rng)));
            events.push(Ev::Line("show memory".into()));
            return Scn { w, h, preload: false, autorun: 0, events, init: [0; 6] };
        }
        if rng.chance(1, 40) {
            // the same setter twice with a program run and a load in between
            let which = *rng.pick(&["TEMP", "I1", "I2"]);
            let val = float_value(rng);
            let setter = format!("set {} = {}", which, val);
            let mut events = vec![Ev::Line(setter.clone()), Ev::Line("load dac.asm".into())];
            if rng.bool() {
                events.push(Ev::Line(format!("next {}", 30 + rng.below(40))));
            } else {
                for _ in 0..30 + rng.below(30) {
                    events.push(Ev::Key("Enter".into()));
                }
            }
            events.push(Ev::Line(format!("load {}", rng.pick(&LOAD_TARGETS))));
            if rng.bool() {
                events.push(Ev::Ctrl('r'));
            }
            events.push(Ev::Line(setter));
            events.push(Ev::Line(command_line(rng)));
            return Scn { w: 100, h: 40, preload: rng.bool(), autorun: 0, events, init: [0; 6] };
        }
        let (w, h) = if rng.chance(2, 3) { (100, 40) } else { random_size(rng) };
        let span = if rng.chance(1, 4) { 200 } else { 40 };
        let n = 1 + rng.usize(span);
        // swarm: which event classes this session uses
        let use_multibyte = rng.chance(1, 3);
        let use_resize = rng.chance(1, 3);
        let use_ctrl = rng.chance(1, 2);
        let cmd_heavy = rng.chance(1, 2);
        let mut events = vec![];
        for _ in 0..n {
            let e = match rng.below(24) {
                0..=5 if cmd_heavy => Ev::Line(command_line(rng)),
                0..=3 => {
                    let f = *rng.pick(&FRAGMENTS);
                    for c in f.chars() {
                        events.push(Ev::Char(c));
                    }
                    continue;
                }
                4..=8 => Ev::Char((0x20 + rng.below(0x5F) as u8) as char),
                9 if use_multibyte => Ev::Char(*rng.pick(&MULTIBYTE)),
                9..=14 => Ev::Key(rng.pick(&EDIT_KEYS).to_string()),
                15 => Ev::Key("Tab".into()),
                16 if use_ctrl => Ev::Ctrl(*rng.pick(&['a', 'w', 'e', 'r', 'l', 'e', 'r', 'x', 'z'])),
                17 if use_resize => {
                    let (w, h) = random_size(rng);
                    Ev::Resize(w, h)
                }
                18 => Ev::Key(rng.pick(&["Esc", "Insert", "PageUp", "PageDown", "Null"]).to_string()),
                19 => {
                    if rng.bool() {
                        Ev::F(1 + rng.below(12) as u8)
                    } else {
                        let k = *rng.pick(&["Left", "Right", "Up", "Down", "Home", "End", "Backspace", "Delete", "Tab", "BackTab", "b", "f", "x", "é"]);
                        // never CONTROL alone with a letter (those are the documented chords)
                        let bits = *rng.pick(&[1u8, 4, 5, 3, 6, 7, 1, 4]);
                        Ev::Mod(k.to_string(), bits)
                    }
                }
                20 => {
                    if rng.bool() {
                        Ev::Mouse
                    } else {
                        Ev::ResizeEvent(rng.below(300) as u16, rng.below(120) as u16)
                    }
                }
                21 => Ev::Idle(1 + rng.below(3) as u8),
                22 if use_multibyte && rng.chance(1, 3) => {
                    // a field full of double-width characters (optionally behind some narrow text)
                    for _ in 0..rng.below(3) * 10 {
                        events.push(Ev::Char('x'));
                    }
                    let c = *rng.pick(&['漢', '😀', '字', 'Ｗ']);
                    for _ in 0..5 + rng.below(60) {
                        events.push(Ev::Char(if rng.chance(1, 8) { 'i' } else { c }));
                    }
                    continue;
                }
                22 => Ev::Key("Enter".into()),
                _ => Ev::Key("Backspace".into()),
            };
            let again = match &e {
                Ev::Line(l) if rng.chance(1, 8) => Some(l.clone()),
                _ => None,
            };
            events.push(e);
            if let Some(l) = again {
                // the same line once more, in another letter case (path included) or unchanged
                events.push(Ev::Line(match rng.below(3) {
                    0 => l.to_uppercase(),
                    1 => l.to_lowercase(),
                    _ => l,
                }));
            }
        }
        if rng.chance(1, 6) {
            events.push(if rng.bool() { Ev::Ctrl('c') } else { Ev::Line("quit".into()) });
        }
        let autorun = *rng.pick(&[0u32, 1, 7, 100, 100, 1000, 307_200 / 24]);
        if autorun > 1000 {
            // a frame's worth of auto-run cycles can cost 4 096 edges each (Assembly mode on an
            // undefined opcode): keep such sessions short so that a run stays bounded
            events.truncate(20);
        }
        let init = if rng.chance(1, 3) { [rng.u8(), rng.u8(), rng.u8(), rng.u8(), rng.u8(), rng.u8()] } else { [0; 6] };
        Scn { w, h, preload: rng.chance(1, 3), autorun, events, init }
    }
    fn execute(&self, scn: &Scn, ctx: &mut Ctx) -> Result<(), Violation> {
        run(scn, ctx)
    }
    fn shrink(&self, scn: &Scn, v: &Violation) -> Vec<Scn> {
        let mut out = vec![];
        let at = v.detail.strip_prefix("event#=").and_then(|s| s.split(' ').next()).and_then(|s| s.parse::<usize>().ok());
        if let Some(i) = at {
            if i + 1 < scn.events.len() {
                let mut c = scn.clone();
                c.events.truncate(i + 1);
                out.push(c);
            }
        }
        let n = scn.events.len();
        if n > 3 {
            let mut c = scn.clone();
            c.events.drain(..n / 2);
            out.push(c);
        }
        for i in 0..n {
            let mut c = scn.clone();
            c.events.remove(i);
            out.push(c);
        }
        // split lines into shorter lines, simplify characters
        for i in 0..n {
            match &scn.events[i] {
                Ev::Line(l) if l.chars().count() > 1 => {
                    let chars: Vec<char> = l.chars().collect();
                    for k in 0..chars.len() {
                        let mut cc = chars.clone();
                        cc.remove(k);
                        let mut c = scn.clone();
                        c.events[i] = Ev::Line(cc.into_iter().collect());
                        out.push(c);
                    }
                }
                Ev::Char(ch) if *ch != 'a' && ch.is_ascii() => {
                    let mut c = scn.clone();
                    c.events[i] = Ev::Char('a');
                    out.push(c);
                }
                _ => {}
            }
        }
        if scn.preload {
            let mut c = scn.clone();
            c.preload = false;
            out.push(c);
        }
        if scn.autorun != 0 {
            let mut c = scn.clone();
            c.autorun = 0;
            out.push(c);
        }
        if scn.init != [0; 6] {
            let mut c = scn.clone();
            c.init = [0; 6];
            out.push(c);
        }
        if (scn.w, scn.h) != (100, 40) {
            let mut c = scn.clone();
            c.w = 100;
            c.h = 40;
            out.push(c);
        }
        out
    }
    fn rule(&self) -> String {
        "First a bounded-exhaustive part: every sequence of 3 (quick) / 5 (thorough) editing keys over a 14-key alphabet from four editor start states. Then sessions of 1-200 scripted terminal events from a swarm-chosen alphabet: printable ASCII, command-word fragments, complete generated command lines (every documented form with random case, spacing, radix, values around 255/256/0x100/0b100000000, malformed tokens, trailing junk, load targets incl. missing file / directory / non-UTF-8 / syntax error), multi-byte characters, Enter, Tab/BackTab (file-name completion against a sandbox directory), arrows, Home/End, Backspace/Delete, the CTRL chords, unknown key codes, mouse and resize events, terminal resizes between frames over 1x1..250x100 with emphasis on the 75/76 x 27/28 guard edges, auto-run budgets up to one frame's worth. One frame per event: maintain, handle_event, draw. distinct = distinct (abstract editor state, event kind) transitions.".into()
    }
    fn assumptions(&self) -> Vec<String> {
        vec![
            "R-CMD (in this file) recognises the command lines documented in README 'Commands' and the property text; a documented command followed by extra text, 'exit', upper-case 0X/0B, exotic float spellings and over-long `next` counts are Unspecified (either outcome accepted)".into(),
            "a key that arrives while a notification is shown only dismisses it (tree behaviour no property mentions): such events are exercised for crash freedom but their effect is not judged".into(),
            "stubbed: terminal backend (TestBackend), event source (injection queue), the loop shell of Tui::run with sleep/Instant (verif_frame with a simulator-chosen auto-run budget); key-highlight styling still reads Instant but cannot influence state".into(),
        ]
    }
    fn components(&self) -> Value {
        json!({
            "line editor, command parser (nom), event dispatch, widgets, layout, MachineState, Machine, parser + translator (load)": "real (compiled into the harness from /repo/emulator-2a/src by #[path], feature verif-hooks)",
            "terminal backend": "stub (tui TestBackend)",
            "terminal event source": "stub (injection queue, hook in tui/events.rs)",
            "Tui::run loop shell, thread::sleep, Instant": "stub (verif_frame hook)",
            "file system": "real files in a fixed sandbox directory under /verif/sim/sandbox (current directory of the process)",
        })
    }
    fn exhaustive_dims(&self, tier: Tier) -> Vec<String> {
        vec![format!("every sequence of {} keys over {{a, é, 漢, Enter, Tab, BackTab, Left, Right, Up, Down, Home, End, Backspace, Delete}} from each of 4 editor start states (empty; history + partial command; partial `load` path at 76x28; multi-byte text with the cursor inside, at 76x28)", enum_len(tier))]
    }
    fn must_fire(&self, _tier: Tier) -> Vec<String> {
        ["KEY-ASCII", "KEY-MULTIBYTE", "KEY-CTRL", "KEY-EDIT", "KEY-UNKNOWN", "MOUSE", "RESIZE", "command-executed", "command-rejected", "load-succeeded", "load-file-fault", "enter-on-empty-line=clock"].iter().map(|s| s.to_string()).collect()
    }
}
