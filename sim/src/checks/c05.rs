//! C05: stack/PC supervision and the halt states are exact and absorbing.
//! A per-edge invariant monitor that uses only observed registers, the public control-word
//! signals and predicates written here; plus an absorption test forked at every halted state.
use crate::checks::c13::random_stim;
use crate::driver::{mix, Check, Ctx, Tier, Violation};
use crate::engine::{shrink_seq, SeqScn};
use crate::gen::{self, Prog, Src};
use crate::isa::{pc_valid, sp_valid};
use crate::prng::Rng;
use crate::sut::{state_name, word_is_fetch, Image, Setup, Stim};
use emulator_2a_lib::machine::{Machine, State, StepMode};
use emulator_2a_lib::parser::{Programsize, Stacksize};
use serde::{Deserialize, Serialize};
use serde_json::{json, Value};

pub struct C05;

#[derive(Clone, Debug, Serialize, Deserialize)]
pub struct Scn {
    pub seq: SeqScn,
    /// stimuli applied to a fork of every halted state reached
    pub absorb: Vec<Stim>,
}

fn v(oracle: &str, t: u32, d: String) -> Violation {
    Violation::new("C05", oracle, format!("edge={} {}", t, d))
}

fn stack_of(m: &Machine) -> u8 {
    match m.stacksize() {
        Stacksize::_0 => 0,
        Stacksize::_16 => 16,
        Stacksize::_32 => 32,
        Stacksize::_48 => 48,
        Stacksize::_64 => 64,
        Stacksize::NotSet => 255,
    }
}
fn limit_of(m: &Machine) -> Option<u8> {
    match m.programsize() {
        Programsize::Size(n) => Some(n),
        _ => None,
    }
}

/// harness-side tracking of the configured limits (what `load` is documented to apply)
#[derive(Clone, Copy)]
struct Limits {
    stack: u8,
    limit: Option<u8>,
}
impl Limits {
    fn after_load(&mut self, img: &Image) {
        if matches!(img.stack, 0 | 16 | 32 | 48 | 64) {
            self.stack = img.stack;
        }
        self.limit = img.limit_after(self.limit);
    }
}

fn regs_ok(l: Limits, m: &Machine) -> bool {
    let c = m.registers().content();
    sp_valid(l.stack, c[5]) && pc_valid(l.limit, c[3])
}

/// Absorption test on a fork of a halted machine.
fn absorption(orig: &Machine, absorb: &[Stim], t: u32, first_byte_stop: bool, ctx: &mut Ctx) -> Result<(), Violation> {
    let st = orig.state();
    ctx.cov.probe(if st == State::Stopped { "halted-fork:stopped" } else { "halted-fork:error-stopped" });
    // 1. clock edges in both step modes change nothing at all
    for mode in [StepMode::Real, StepMode::Assembly] {
        let mut f = orig.clone();
        let om = f.step_mode();
        f.set_step_mode(mode);
        for _ in 0..3 {
            f.trigger_key_clock();
        }
        f.raw_mut().trigger_clock_edge();
        f.set_step_mode(om);
        if f != *orig {
            return Err(v("halt-not-absorbing", t, format!("clock edges ({:?} mode) changed a {} machine", mode, state_name(st))));
        }
    }
    // 2. stimuli: nothing but CONTINUE (from Stopped) or a reset leaves the state
    let mut f = orig.clone();
    for s in absorb {
        let before = f.state();
        let regs = *f.registers().content();
        s.apply(&mut f);
        ctx.cov.fault(s.kind());
        let leaves = match s {
            Stim::Continue => before == State::Stopped,
            Stim::CpuReset | Stim::MasterReset | Stim::Load(_) => true,
            _ => false,
        };
        if leaves {
            if f.state() != State::Running {
                return Err(v("halt-exit", t, format!("{} on a {} machine left it {}", s.kind(), state_name(before), state_name(f.state()))));
            }
            if let Stim::Continue = s {
                ctx.cov.probe("continue-from-stop");
                // resumes with the next instruction: the stopped STOP acts as a NOP
                let intr = f.signals().interrupt_flipflop_1() && f.registers().interrupt_enable_flag();
                let mut n = 0;
                while !f.is_instruction_done() && f.state() == State::Running && n < 8 {
                    f.trigger_key_clock();
                    n += 1;
                }
                // (a 0x01 loaded as *second* byte of the two-byte group also stops the machine; how that
                // resumes is specified nowhere and not checked)
                if f.state() == State::Running && !intr && first_byte_stop {
                    if !f.is_instruction_done() {
                        return Err(v("continue-resume", t, "no instruction boundary within 8 edges after CONTINUE".into()));
                    }
                    let r2 = *f.registers().content();
                    if r2[..6] != regs[..6] {
                        return Err(v("continue-resume", t, format!("CONTINUE did not resume with the next instruction: registers {:02X?} -> {:02X?}", &regs[..6], &r2[..6])));
                    }
                }
            }
            // continue the burst on a halted fork again
            f = orig.clone();
        } else {
            if f.state() != before {
                return Err(v("halt-not-absorbing", t, format!("{} changed the state {} -> {}", s.kind(), state_name(before), state_name(f.state()))));
            }
            if *f.registers().content() != regs {
                return Err(v("halt-not-absorbing", t, format!("{} changed the registers of a halted machine", s.kind())));
            }
            // and a following clock edge still does nothing
            let g = f.clone();
            f.trigger_key_clock();
            if f != g {
                return Err(v("halt-not-absorbing", t, format!("a clock edge after {} changed a {} machine", s.kind(), state_name(before))));
            }
        }
    }
    Ok(())
}

pub fn run_monitor(scn: &Scn, ctx: &mut Ctx) -> Result<(), Violation> {
    let s = &scn.seq;
    let mut m = s.setup.build();
    let mut lim = Limits { stack: 16, limit: None };
    lim.after_load(&s.setup.image);
    if stack_of(&m) != lim.stack || limit_of(&m) != lim.limit {
        return Err(v("limits", 0, format!("load applied stack {} / limit {:?}, expected {} / {:?}", stack_of(&m), limit_of(&m), lim.stack, lim.limit)));
    }
    let mut next = 0usize;
    let mut forked_this_halt = false;
    let mut first_byte_stop = true;
    // the byte the CPU last read from the bus (address, value), observed on the control word
    let mut last_read: Option<(u8, u8)> = None;
    for t in 0..s.max_edges {
        while next < s.events.len() && s.events[next].0 <= t {
            let st = &s.events[next].1;
            next += 1;
            let before = m.state();
            st.apply(&mut m);
            ctx.cov.fault(st.kind());
            if let Stim::Load(img) = st {
                lim.after_load(img);
            }
            let may_leave = matches!(st, Stim::CpuReset | Stim::MasterReset | Stim::Load(_)) || (matches!(st, Stim::Continue) && before == State::Stopped);
            if before != State::Running && !may_leave && m.state() != before {
                return Err(v("halt-not-absorbing", t, format!("{} changed the state {} -> {}", st.kind(), state_name(before), state_name(m.state()))));
            }
            if before == State::Running && m.state() != State::Running {
                return Err(v("spurious-halt", t, format!("{} halted a running machine ({})", st.kind(), state_name(m.state()))));
            }
            if m.state() == State::Running {
                forked_this_halt = false;
            }
        }
        let was = m.state();
        let fetch_before = word_is_fetch(&m);
        let done_before = m.is_instruction_done();
        if was != State::Running {
            if !forked_this_halt {
                forked_this_halt = true;
                absorption(&m, &scn.absorb, t, first_byte_stop, ctx)?;
            }
            let g = m.clone();
            m.trigger_key_clock();
            ctx.cov.sim_edges += 1;
            if m != g {
                return Err(v("halt-not-absorbing", t, format!("a clock edge changed a {} machine", state_name(was))));
            }
            if next >= s.events.len() {
                break;
            }
            continue;
        }
        // a running machine must satisfy both rules (a)
        if !regs_ok(lim, &m) {
            let c = m.registers().content();
            return Err(v("running-with-invalid-register", t, format!("machine is Running with SP=0x{:02X} PC=0x{:02X} under stack size {} / limit {:?}", c[5], c[3], lim.stack, lim.limit)));
        }
        let word_before = crate::sut::control_word(&m);
        m.raw_mut().trigger_clock_edge();
        ctx.cov.sim_edges += 1;
        let now = m.state();
        let c = *m.registers().content();
        {
            // (only on the edge that executed the reading word, not on its memory-wait edge, after
            // which a stimulus may already have changed the cell)
            let sg = m.signals();
            if sg.busen() && !sg.buswr() && crate::sut::control_word(&m) != word_before {
                let a = *m.registers().get(sg.selected_register_a());
                last_read = Some((a, m.bus().read(a)));
            }
        }
        let ir_loaded = fetch_before && !word_is_fetch(&m);
        if ir_loaded {
            first_byte_stop = done_before;
        }
        let ir = m.word().bits();
        let bad = !regs_ok(lim, &m);
        // coverage: which side of each band edge / limit edge was committed
        ctx.cov.distinct(mix(mix(lim.stack as u64, c[5] as u64), bad as u64));
        ctx.cov.set("limit-x-pc", mix(lim.limit.map(|n| n as u64 + 1).unwrap_or(0), c[3] as u64));
        match now {
            State::Running => {
                if bad {
                    return Err(v("missed-error-stop", t, format!("a register write left SP=0x{:02X} PC=0x{:02X} (stack size {}, limit {:?}) and the machine still reports Running", c[5], c[3], lim.stack, lim.limit)));
                }
                if ir_loaded && ir == 0x00 {
                    return Err(v("missed-error-stop", t, "opcode 0x00 was loaded and the machine still reports Running".into()));
                }
                if ir_loaded && ir == 0x01 {
                    return Err(v("missed-stop", t, "opcode 0x01 (STOP) was loaded and the machine still reports Running".into()));
                }
            }
            State::ErrorStopped => {
                if !bad && ir_loaded && ir == 0x00 {
                    // "never error-stops for any other reason": the 0x00 must really have been fetched
                    if let Some((a, val)) = last_read {
                        if val != 0x00 {
                            return Err(v("unjustified-error-stop", t, format!("error stop on opcode 0x00, but the byte the CPU fetched (from 0x{:02X}) was 0x{:02X}; SP=0x{:02X} PC=0x{:02X} are valid", a, val, c[5], c[3])));
                        }
                    }
                }
                let why = if bad { "register" } else if ir_loaded && ir == 0x00 { "opcode-00" } else { "" };
                if why.is_empty() {
                    return Err(v("unjustified-error-stop", t, format!("error stop with SP=0x{:02X} PC=0x{:02X} valid (stack size {}, limit {:?}) and no 0x00 opcode loaded (IR=0x{:02X})", c[5], c[3], lim.stack, lim.limit, ir)));
                }
                ctx.cov.probe(&format!("error-stop:{}", why));
            }
            State::Stopped => {
                if !(ir_loaded && ir == 0x01) {
                    return Err(v("unjustified-stop", t, format!("regular stop without a 0x01 opcode being loaded (IR=0x{:02X})", ir)));
                }
                if bad {
                    return Err(v("stop-masks-error", t, format!("the edge that loaded STOP also committed SP=0x{:02X} PC=0x{:02X}, which breaks the rule (stack size {}, limit {:?}); the machine reports a regular stop instead of an error stop", c[5], c[3], lim.stack, lim.limit)));
                }
                ctx.cov.probe("stop");
            }
        }
        ctx.tr(mix(t as u64, mix(c[3] as u64, c[5] as u64)));
    }
    Ok(())
}

fn family(rng: &mut Rng) -> (Vec<u8>, u8, Option<u8>) {
    let stack = gen::pick_stack(rng);
    let mut p = Prog::new();
    let fam = rng.below(8);
    match fam {
        0 => {
            // deep PUSH recursion
            p.ldsp(Src::Imm(0xEF));
            let top = p.here();
            p.push(rng.below(3) as u8);
            p.jr_to(0, top);
        }
        1 => {
            // CALL recursion
            p.ldsp(Src::Imm(if rng.bool() { 0xEF } else { gen::valid_sp(rng, stack) }));
            let top = p.here();
            p.call(top);
        }
        2 => {
            // POP past the top
            p.ldsp(Src::Imm(0xE8 + rng.below(8) as u8));
            for _ in 0..12 {
                p.pop(rng.below(3) as u8);
            }
            p.stop();
        }
        3 => {
            // LDSP to a random value, then use the stack
            p.ldsp(Src::Imm(rng.u8()));
            p.push(0);
            p.pop(1);
            p.stop();
        }
        4 => {
            // jump to a random address in a NOP sled that ends in STOP
            let t = rng.u8();
            p.jmp(t);
            while p.len() < 0xEF {
                p.nop();
            }
            p.stop();
        }
        5 => {
            // fall through a NOP sled over the limit
            let n = rng.below(0xEE) as usize + 1;
            while p.len() < n {
                p.nop();
            }
            if rng.bool() {
                p.stop();
            }
        }
        6 => {
            // conditional jumps near the limit
            p.ldsp(Src::Imm(0xEF));
            let n = 4 + rng.below(40) as usize;
            while p.len() < n {
                p.un(0x44, 0);
            }
            p.byte(0x20).byte(rng.below(8) as u8);
            for _ in 0..8 {
                p.nop();
            }
            p.stop();
        }
        _ => {
            let len = 16 + rng.usize(220);
            return (gen::biased_image(rng, len), stack, gen::pick_limit(rng, len));
        }
    }
    let len = p.len();
    let limit = match rng.below(8) {
        0 => Some(0),
        1 => Some(1),
        2 => None,
        3 => Some(0x7F),
        4 => Some(0xEF),
        5 => Some(0xFF),
        6 => Some((len as u8).wrapping_sub(rng.below(3) as u8)),
        _ => Some(rng.u8()),
    };
    (p.b, stack, limit)
}

fn absorb_list(rng: &mut Rng) -> Vec<Stim> {
    let mut out = vec![Stim::KeyInt, Stim::Continue];
    for _ in 0..rng.below(8) {
        out.push(random_stim(rng, false));
    }
    if rng.bool() {
        out.push(Stim::CpuReset);
    }
    if rng.chance(1, 4) {
        out.push(Stim::MasterReset);
    }
    // shuffle
    for i in (1..out.len()).rev() {
        let j = rng.usize(i + 1);
        out.swap(i, j);
    }
    out
}

impl C05 {
    fn sweep_case(bytes: Vec<u8>, stack: u8, limit: Option<u8>, regs: Option<[u8; 8]>, edges: u32) -> Scn {
        Scn {
            seq: SeqScn { setup: Setup { image: Image { bytes, stack, limit, keep_limit: false }, regs, pokes: vec![], inputs: [0; 4], asm_mode: false }, events: vec![], max_edges: edges },
            absorb: vec![Stim::KeyInt, Stim::Continue, Stim::InReg(0, 0xFF)],
        }
    }
}

impl Check for C05 {
    type Scn = Scn;
    fn id(&self) -> &'static str {
        "C05"
    }
    fn runs(&self, tier: Tier) -> u64 {
        match tier {
            Tier::Quick => 600_000,
            Tier::Thorough => 40_000_000,
        }
    }
    fn generate(&self, rng: &mut Rng, _tier: Tier, _idx: u64) -> Scn {
        let (bytes, stack, limit) = family(rng);
        // sometimes the very first image says *STACKSIZE NOSET: the machine keeps its power-on
        // size (16), which is then the rule in force
        let first_noset = rng.chance(1, 8);
        let stack = if first_noset { 16 } else { stack };
        let max_edges = 100 + rng.below(1500) as u32;
        let mut regs = None;
        if rng.chance(1, 3) {
            // hostile R0-R2/FR/R6/R7; SP and PC must start legal
            let mut r = [0u8; 8];
            for x in r.iter_mut() {
                *x = rng.u8();
            }
            r[3] = 0;
            r[5] = gen::valid_sp(rng, stack);
            regs = Some(r);
        }
        let nev = if rng.chance(1, 2) { rng.below(4) } else { rng.below(30) };
        let mut events: Vec<(u32, Stim)> = vec![];
        for _ in 0..nev {
            let t = rng.below(max_edges as u64) as u32;
            let s = match rng.below(12) {
                0 | 1 => Stim::KeyInt,
                2 | 3 => Stim::Continue,
                4 => Stim::CpuReset,
                5 => Stim::Flip(rng.below(0xF0) as u8, rng.below(8) as u8),
                6 => Stim::BusWrite(rng.below(0xF0) as u8, rng.below(3) as u8),
                7 => {
                    let (b, st, l) = family(rng);
                    Stim::Load(Image { bytes: b, stack: if rng.chance(1, 5) { 99 } else { st }, limit: l, keep_limit: rng.chance(1, 4) })
                }
                8 => Stim::MasterReset,
                _ => random_stim(rng, false),
            };
            events.push((t, s));
        }
        events.sort_by_key(|e| e.0);
        // a program whose limit is 0 with AUTO etc. may start with PC invalid only through load; PC = 0 is always legal
        Scn {
            seq: SeqScn { setup: Setup { image: Image { bytes, stack: if first_noset { 99 } else { stack }, limit, keep_limit: false }, regs, pokes: vec![], inputs: [rng.u8(), rng.u8(), rng.u8(), rng.u8()], asm_mode: false }, events, max_edges },
            absorb: absorb_list(rng),
        }
    }
    fn execute(&self, scn: &Scn, ctx: &mut Ctx) -> Result<(), Violation> {
        run_monitor(scn, ctx)
    }
    fn shrink(&self, scn: &Scn, v: &Violation) -> Vec<Scn> {
        let mut out: Vec<Scn> = vec![];
        if !scn.absorb.is_empty() {
            let mut c = scn.clone();
            c.absorb.clear();
            out.push(c);
            for i in 0..scn.absorb.len() {
                let mut c = scn.clone();
                c.absorb.remove(i);
                out.push(c);
            }
        }
        out.extend(shrink_seq(&scn.seq, v).into_iter().map(|s| Scn { seq: s, absorb: scn.absorb.clone() }));
        out
    }
    /// swept completely: LDSP v for every v x 5 stack sizes and NOSET on a fresh machine; JMP t for every t x a set of limits;
    /// NOP sled of every length x a set of limits; STOP / 0x00 at every address around a limit
    fn fixed_sweep(&self, _tier: Tier, ctx: &mut Ctx) -> Result<(), (Violation, Option<Scn>)> {
        let limits: [Option<u8>; 9] = [None, Some(0), Some(1), Some(2), Some(5), Some(0x7F), Some(0xEF), Some(0xFE), Some(0xFF)];
        let run = |scn: Scn, ctx: &mut Ctx| -> Result<(), (Violation, Option<Scn>)> {
            ctx.cov.evaluations += 1;
            run_monitor(&scn, ctx).map_err(|v| (v, Some(scn)))
        };
        // (99 = *STACKSIZE NOSET on a fresh machine: the power-on size 16 stays in force)
        for stack in [0u8, 16, 32, 48, 64, 99] {
            for val in 0..=255u8 {
                // LDSP v, then PUSH and POP around it
                let mut p = Prog::new();
                p.ldsp(Src::Imm(val)).push(0).push(1).pop(2).pop(2).pop(2).stop();
                run(C05::sweep_case(p.b, stack, Some(0xFF), None, 80), ctx)?;
                // descend into the value from above, one PUSH at a time
                let mut p = Prog::new();
                p.ldsp(Src::Imm(0xEF));
                let top = p.here();
                p.push(0).jr_to(0, top);
                if val == 0 {
                    run(C05::sweep_case(p.b, stack, Some(0xFF), None, 2500), ctx)?;
                }
            }
        }
        for limit in limits {
            for t in 0..=255u8 {
                let mut p = Prog::new();
                p.jmp(t);
                while p.len() < 0xEF {
                    p.nop();
                }
                p.stop();
                run(C05::sweep_case(p.b, 16, limit, None, 40), ctx)?;
            }
            for n in 0..=0xEFusize {
                // NOP sled of length n ending in STOP / 0x00 / nothing
                for tail in [Some(0x01u8), Some(0x00), None] {
                    let mut b = vec![0x02u8; n];
                    if let Some(x) = tail {
                        b.push(x);
                    }
                    if limit.map(|l| (l as usize) + 3 >= n && n + 3 >= l as usize).unwrap_or(n < 4) || n % 16 == 0 {
                        run(C05::sweep_case(b, 16, limit, None, (3 * n + 20) as u32), ctx)?;
                    }
                }
            }
        }
        Ok(())
    }
    fn rule(&self) -> String {
        "Sweep: LDSP v for all 256 v x 5 stack sizes, JMP t for all 256 t x 9 limits, NOP sleds ending in STOP/0x00/nothing around every limit. Sampled: program families (PUSH/CALL recursion, POP past the top, LDSP anywhere, jumps and fall-through to every address, opcode-biased random code) x stack sizes x limits, with stimuli (key interrupts, CONTINUE, resets, reloads, RAM bit flips, input changes) on arbitrary edges; monitor evaluated after every single clock edge; every halted state reached is forked for the absorption test. distinct = distinct (stack size, committed SP value, rule broken?) triples observed.".into()
    }
    fn assumptions(&self) -> Vec<String> {
        vec![
            "supervision predicates are written in the harness from DESIGN.md Appendix A (one forbidden band per stack size, SP >= 0xF0 always forbidden, PC <= limit)".into(),
            "the byte loaded into the instruction register is observed through Machine::word(); 'a load happened' = the control word before the edge had MAC2&MAC0 (public Signals) and the one after has not".into(),
        ]
    }
    fn components(&self) -> Value {
        json!({"Machine, RawMachine, Bus, Board, control store": "real", "monitor predicates, scheduler, PRNG": "harness", "reference interpreter": "not used"})
    }
    fn sample(&self, s: &Scn) -> Value {
        json!({
            "image_head": s.seq.setup.image.bytes.iter().take(16).map(|b| format!("{:02X}", b)).collect::<Vec<_>>().join(" "),
            "image_len": s.seq.setup.image.bytes.len(), "stack": s.seq.setup.image.stack, "limit": s.seq.setup.image.limit,
            "events": s.seq.events.len(), "max_edges": s.seq.max_edges, "absorb": s.absorb.iter().map(|x| x.kind()).collect::<Vec<_>>(),
        })
    }
    fn must_fire(&self, _tier: Tier) -> Vec<String> {
        ["halted-fork:stopped", "halted-fork:error-stopped", "continue-from-stop", "error-stop:register", "error-stop:opcode-00", "stop"].iter().map(|s| s.to_string()).collect()
    }
    fn exhaustive_dims(&self, _tier: Tier) -> Vec<String> {
        vec!["LDSP value 0..255 x 5 stack sizes".into(), "jump target 0..255 x 9 program-size limits".into()]
    }
}
