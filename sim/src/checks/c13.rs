//! C13: no program and no external stimulus can crash the emulator core.
//! Model-free fault injection: every call into the machine is wrapped in catch_unwind (the harness
//! builds the crates with overflow checks), after every stimulus all getters are read and the
//! machine is stepped further.
use crate::driver::{guard, mix, Check, Ctx, Tier, Violation};
use crate::engine::{shrink_seq, SeqScn};
use crate::gen;
use crate::prng::Rng;
use crate::sut::{f32_class, read_everything, state_id, Image, Setup, Stim};
use emulator_2a_lib::machine::{Machine, RegisterNumber};
use serde_json::{json, Value};

pub struct C13;

pub fn random_f32_bits(rng: &mut Rng) -> u32 {
    match rng.below(12) {
        0 => f32::NAN.to_bits(),
        1 => 0x7FC0_0001 | (rng.u32() & 0x003F_FFFF), // NaN payloads
        2 => 0xFFC0_0000 | (rng.u32() & 0x003F_FFFF),
        3 => f32::INFINITY.to_bits(),
        4 => f32::NEG_INFINITY.to_bits(),
        5 => (-0.0f32).to_bits(),
        6 => rng.u32() & 0x007F_FFFF,                 // subnormal
        7 => 1e38f32.to_bits(),
        8 => (rng.below(600) as f32 / 100.0).to_bits(),
        9 => (-(rng.below(600) as f32) / 100.0).to_bits(),
        _ => rng.u32(),
    }
}

pub fn random_stim(rng: &mut Rng, all: bool) -> Stim {
    match rng.below(if all { 17 } else { 13 }) {
        0 | 1 => Stim::KeyInt,
        2 => Stim::Continue,
        3 => Stim::CpuReset,
        4 => Stim::InReg(rng.below(4) as u8, rng.u8()),
        5 => Stim::Di(rng.u8()),
        6 => Stim::Jumper(1 + rng.below(2) as u8, rng.bool()),
        7 => Stim::Uio(1 + rng.below(3) as u8, rng.bool()),
        // (checks that compare machines with == use `all = false`: a NaN that a broken clamp lets
        // through would make every later equality fail, which is C14's finding, not theirs)
        8 | 9 => Stim::Volt(rng.below(3) as u8, if all { random_f32_bits(rng) } else { (rng.below(700) as f32 / 100.0 - 1.0).to_bits() }),
        10 => Stim::BusWrite(rng.u8(), rng.u8()),
        11 => Stim::BusRead(rng.u8()),
        12 => Stim::Mode(rng.chance(1, 4)),
        13 => Stim::MasterReset,
        14 => Stim::Flip(rng.below(0xF0) as u8, rng.below(8) as u8),
        15 => {
            let len = rng.usize(241);
            let bytes = if rng.bool() { gen::uniform_image(rng, len) } else { gen::biased_image(rng, len) };
            let limit = gen::pick_limit(rng, bytes.len());
            Stim::Load(Image { bytes, stack: *rng.pick(&[0u8, 16, 32, 48, 64, 99]), limit, keep_limit: rng.chance(1, 6) })
        }
        _ => Stim::BusWrite(0xF0 + rng.below(16) as u8, rng.u8()),
    }
}

fn viol(what: &str, t: u32, e: (String, String)) -> Violation {
    Violation::new("C13", "panic", format!("edge={} panic at {}: {} (during {})", t, e.0, e.1, what))
}

#[derive(Default)]
struct Bits {
    rd: [u64; 4],
    wr: [u64; 4],
    ir: [u64; 4],
}

#[inline]
fn after_tick_cov(m: &Machine, b: &mut Bits) {
    let s = m.signals();
    if s.busen() || s.buswr() {
        let a = *m.registers().get(s.selected_register_a()) as usize;
        if s.busen() {
            b.rd[a >> 6] |= 1 << (a & 63);
        }
        if s.buswr() {
            b.wr[a >> 6] |= 1 << (a & 63);
        }
    }
    let i = m.word().bits() as usize;
    b.ir[i >> 6] |= 1 << (i & 63);
    let _ = RegisterNumber::R0;
}

fn flush(b: &Bits, ctx: &mut Ctx) {
    for a in 0..256usize {
        if b.rd[a >> 6] >> (a & 63) & 1 == 1 {
            ctx.cov.set("bus-address-read-by-instruction", a as u64);
        }
        if b.wr[a >> 6] >> (a & 63) & 1 == 1 {
            ctx.cov.set("bus-address-written-by-instruction", a as u64);
        }
        if b.ir[a >> 6] >> (a & 63) & 1 == 1 {
            ctx.cov.set("instruction-register-bytes", a as u64);
        }
    }
}

impl Check for C13 {
    type Scn = SeqScn;
    fn id(&self) -> &'static str {
        "C13"
    }
    fn level(&self) -> &'static str {
        "fault_enumeration"
    }
    fn runs(&self, tier: Tier) -> u64 {
        match tier {
            Tier::Quick => 120_000,
            Tier::Thorough => 5_000_000,
        }
    }
    fn generate(&self, rng: &mut Rng, _tier: Tier, _idx: u64) -> SeqScn {
        let len = if rng.chance(3, 4) { 240 } else { rng.usize(241) };
        let bytes = match rng.below(11) {
            10 => {
                // tight loop that keeps storing to (and reading from) one I/O address: state that only
                // builds up over many accesses of the same register (buffers, counters, shift registers)
                let a = 0xF0 + rng.below(16) as u8;
                let mut p = gen::Prog::new();
                p.ld_imm(0, rng.u8());
                let top = p.here();
                p.st_abs(a, 0);
                if rng.bool() {
                    p.ld_abs(1, a);
                }
                p.un(0x44, 0); // INC R0
                p.jr_to(0, top);
                p.b
            }
            0..=2 => gen::uniform_image(rng, len),
            3..=8 => gen::biased_image(rng, len),
            _ => {
                let rio = rng.bool();
                gen::hazard_program(rng, gen::HazardOpts { len: 100, wild: true, run_into_io: rio, with_ei: true, irq: None })
            }
        };
        let storm = rng.chance(1, 60);
        let bytes = if storm {
            // interrupt storm: the routine re-arms the stack pointer and re-enables interrupts without
            // ever returning (or returns normally), the key is pressed hundreds of times
            let mut p = gen::Prog::new();
            p.byte(0x20).byte(0x02); // JR MAIN
            p.byte(0x20).byte(0x00); // JR ISR (patched)
            p.ldsp(gen::Src::Imm(0xEF));
            p.mov(gen::Dst::Abs(0xF9), gen::Src::Imm(1));
            p.ei();
            let l = p.here();
            p.un(0x44, 0);
            p.jr_to(0, l);
            let isr = p.here();
            p.b[3] = isr.wrapping_sub(4);
            if rng.chance(2, 3) {
                p.ldsp(gen::Src::Imm(0xEF));
                p.ei();
                let l2 = p.here();
                p.un(0x44, 1);
                p.jr_to(0, l2);
            } else {
                p.un(0x44, 1);
                if rng.bool() {
                    p.ei();
                }
                p.reti();
            }
            p.b
        } else {
            bytes
        };
        let stack = gen::pick_stack(rng);
        let limit = gen::pick_limit(rng, bytes.len());
        let regs = if rng.bool() {
            let mut r = [0u8; 8];
            for x in r.iter_mut() {
                *x = rng.u8();
            }
            Some(r)
        } else {
            None
        };
        let (regs, limit) = if storm { (None, Some(0xFF)) } else { (regs, limit) };
        let max_edges = if storm {
            12_000 + rng.below(12_000) as u32
        } else if rng.chance(1, 2000) {
            // ultra-marathon: more than 2^20 executed edges
            1_100_000 + rng.below(1_100_000) as u32
        } else if rng.chance(1, 300) {
            // marathon: counters that only overflow after tens of thousands of edges
            66_000 + rng.below(70_000) as u32
        } else {
            200 + rng.below(2800) as u32
        };
        let dense = rng.chance(3, 10);
        let nev = if dense && !storm { 10 + rng.below(190) } else { rng.below(4) };
        let mut events: Vec<(u32, Stim)> = (0..nev).map(|_| (rng.below(max_edges as u64) as u32, random_stim(rng, true))).collect();
        if rng.chance(1, 12) {
            // hammer one I/O address through direct bus calls
            let a = 0xF0 + rng.below(16) as u8;
            let t0 = rng.below(max_edges as u64) as u32;
            for k in 0..17 + rng.below(300) as u32 {
                events.push((t0 + k / 4, if rng.chance(1, 6) { Stim::BusRead(a) } else { Stim::BusWrite(a, rng.u8()) }));
            }
        }
        if max_edges > 60_000 {
            // long runs start with the timer / UART registers configured (enabled timer with and
            // without a divider, ...), so that whatever those registers count has time to overflow
            for _ in 0..rng.below(4) {
                let (a, val) = match rng.below(4) {
                    0 => (0xFD, 0x90 | (rng.u8() & 0x6F)),
                    1 => (0xFD, rng.u8()),
                    2 => (0xFC, rng.u8()),
                    _ => (0xFB, rng.u8()),
                };
                events.push((rng.below(50) as u32, Stim::BusWrite(a, val)));
            }
        }
        if storm {
            let gap = 18 + rng.below(25) as u32;
            let mut t = 60;
            while t < max_edges {
                events.push((t, Stim::KeyInt));
                t += gap + rng.below(4) as u32;
            }
        }
        events.sort_by_key(|e| e.0);
        let mut inputs = [0u8; 4];
        for i in inputs.iter_mut() {
            *i = rng.u8();
        }
        SeqScn {
            setup: Setup { image: Image { bytes, stack, limit, keep_limit: false }, regs, pokes: vec![], inputs, asm_mode: rng.chance(1, 40) && max_edges <= 3_000 },
            events,
            max_edges,
        }
    }
    fn execute(&self, scn: &SeqScn, ctx: &mut Ctx) -> Result<(), Violation> {
        let mut m = guard(|| scn.setup.build()).map_err(|e| viol("load", 0, e))?;
        let mut next = 0usize;
        let mut h = 0u64;
        let mut bits = Bits::default();
        // work budget in raw clock edges: one tick in Assembly mode can cost 4 096 of them (undefined
        // opcode); a long run must not turn into minutes of wall-clock time (the verdict of a check
        // never depends on a clock, so the run is cut by work done, not by time)
        let mut work: u64 = 0;
        for t in 0..scn.max_edges {
            work += if matches!(m.step_mode(), emulator_2a_lib::machine::StepMode::Assembly) { 4096 } else { 1 };
            if work > 12_000_000 {
                ctx.cov.probe("work-budget-exhausted(run cut short)");
                break;
            }
            while next < scn.events.len() && scn.events[next].0 <= t {
                let s = &scn.events[next].1;
                next += 1;
                guard(|| s.apply(&mut m)).map_err(|e| viol(s.kind(), t, e))?;
                ctx.cov.fault(s.kind());
                match s {
                    Stim::Volt(w, bits) => {
                        ctx.cov.set("setter-x-f32-class", mix(*w as u64, crate::driver::mix(0, f32_class(*bits).len() as u64 * 131 + f32_class(*bits).as_bytes()[0] as u64)));
                    }
                    Stim::BusWrite(a, _) => ctx.cov.set("bus-address-written-by-BUSOP", *a as u64),
                    Stim::BusRead(a) => ctx.cov.set("bus-address-read-by-BUSOP", *a as u64),
                    _ => {}
                }
                ctx.cov.distinct(mix(mix(s.kind_id(), m.word().bits() as u64), state_id(m.state()) as u64 * 2 + m.is_instruction_done() as u64));
                // the state can be read ...
                h ^= guard(|| read_everything(&m)).map_err(|e| viol("reading the getters after a stimulus", t, e))?;
                if next % 4 == 0 {
                    let _ = guard(|| crate::sut::debug_render(&m)).map_err(|e| viol("printing the machine with {:?} after a stimulus", t, e))?;
                }
                // ... and stepped further
                guard(|| m.trigger_key_clock()).map_err(|e| viol("the clock edge after a stimulus", t, e))?;
                ctx.cov.sim_edges += 1;
                after_tick_cov(&m, &mut bits);
            }
            guard(|| m.trigger_key_clock()).map_err(|e| viol("a clock edge", t, e))?;
            ctx.cov.sim_edges += 1;
            after_tick_cov(&m, &mut bits);
            if t % 64 == 0 {
                h ^= guard(|| read_everything(&m)).map_err(|e| viol("reading the getters", t, e))?;
            }
        }
        h ^= guard(|| read_everything(&m)).map_err(|e| viol("reading the getters", scn.max_edges, e))?;
        let _ = guard(|| crate::sut::debug_render(&m)).map_err(|e| viol("printing the machine with {:?}", scn.max_edges, e))?;
        ctx.tr(h);
        flush(&bits, ctx);
        Ok(())
    }
    fn shrink(&self, scn: &SeqScn, v: &Violation) -> Vec<SeqScn> {
        shrink_seq(scn, v)
    }
    fn rule(&self) -> String {
        "RAM images uniform random / opcode-biased / hazard programs x 5 stack sizes x program-size limits x hostile registers, with 0-3 (70 %) or 10-200 (30 %) stimuli of every kind of DESIGN.md section 3 on arbitrary clock edges (values arbitrary: f32 from raw bit patterns, all bytes, reloads with generated images); distinct = distinct (stimulus kind, instruction-register byte, machine state, at-boundary?) tuples a stimulus actually landed in.".into()
    }
    fn assumptions(&self) -> Vec<String> {
        vec![
            "a panic (incl. arithmetic overflow: the harness builds all crates with overflow-checks) in any call into Machine/RawMachine/Bus/Board is the violation; debug_assert! is off as in the shipped release build".into(),
        ]
    }
    fn components(&self) -> Value {
        json!({"Machine, RawMachine, Bus, Board, control store": "real", "scheduler, PRNG": "harness", "reference model": "none (model-free)"})
    }
    fn sample(&self, s: &SeqScn) -> Value {
        json!({
            "image_len": s.setup.image.bytes.len(),
            "image_head": s.setup.image.bytes.iter().take(24).map(|b| format!("{:02X}", b)).collect::<Vec<_>>().join(" "),
            "stack": s.setup.image.stack, "limit": s.setup.image.limit, "regs": s.setup.regs,
            "asm_mode": s.setup.asm_mode, "max_edges": s.max_edges,
            "events_head": s.events.iter().take(6).map(|(t, e)| json!([t, match e { Stim::Load(i) => json!({"Load": {"len": i.bytes.len(), "stack": i.stack, "limit": i.limit}}), o => serde_json::to_value(o).unwrap() }])).collect::<Vec<_>>(),
            "events": s.events.len(),
        })
    }
    fn must_fire(&self, _tier: Tier) -> Vec<String> {
        ["K-INT", "CONT", "RST-CPU", "RST-MASTER", "RELOAD", "MODE", "IN-REG", "DI", "PIN-JUMPER", "PIN-UIO", "VOLT", "BUSOP-WRITE", "BUSOP-READ", "FLIP"].iter().map(|s| s.to_string()).collect()
    }
}
