//! C11: assembly-step mode equals clock-stepping to the next instruction boundary.
//! Model-free fork oracle: at EVERY clock edge of a run (any phase of any instruction, memory wait
//! pending, interrupt pending, inside the interrupt entry, halted) the machine is forked; clone A is
//! switched to Assembly mode and stepped, clone B stays in Real mode and is clocked one edge at a
//! time until the next instruction boundary (or a halt, or - for undefined opcodes - the fixed
//! point). A must equal B in every field except the step mode. Uses only single edges,
//! `is_instruction_done()`, `state()` and `==`.
use crate::checks::c13::random_stim;
use crate::driver::{mix, Check, Ctx, Tier, Violation};
use crate::engine::{shrink_seq, SeqScn};
use crate::gen::{self, HazardOpts, IrqOpts};
use crate::lockstep::class_of;
use crate::prng::Rng;
use crate::sut::{state_name, Image, Setup, Stim};
use emulator_2a_lib::machine::{Machine, State, StepMode};
use serde::{Deserialize, Serialize};
use serde_json::{json, Value};

pub struct C11;

#[derive(Clone, Debug, Serialize, Deserialize)]
pub struct Scn {
    pub seq: SeqScn,
    /// number of consecutive assembly steps taken by each fork
    pub chain: u32,
    /// fork only at this tick (set by minimisation)
    pub only: Option<u32>,
    /// MUL/DIV operand plane: (opcode, value of Rd); Rs is swept over 0..=255 inside
    #[serde(default)]
    pub plane: Option<(u8, u8)>,
    /// history mode: ONE machine is stepped in Assembly mode through the whole run (events are timed
    /// in steps), a shadow in Real mode is clocked to the next boundary for every step, and the two
    /// must agree after every step - state that a Machine carries from one assembly step to the next
    /// (across halts, CONTINUE, resets, undefined opcodes) cannot hide in a fork that is thrown away
    #[serde(default)]
    pub hist: bool,
}

/// more raw edges than any instruction plus an interrupt entry needs
const EDGE_BOUND: u32 = 1300;
/// the first SWEEP scenarios of every tier enumerate all opcode forms at the program counter
const SWEEP: u64 = 240 + 16 * 256;
/// followed by 512 MUL/DIV operand planes (all 65 536 pairs each)
const PLANES: u64 = 512;

fn v(oracle: &str, t: u32, d: String) -> Violation {
    Violation::new("C11", oracle, format!("edge={} {}", t, d))
}

#[derive(PartialEq, Debug, Clone, Copy)]
enum Reached {
    Boundary,
    Halt,
    FixedPoint,
    AlreadyHalted,
}

/// "issuing single clock edges until the next instruction boundary"
fn real_step(b: &mut Machine) -> Result<(Reached, u32), String> {
    if b.state() != State::Running {
        return Ok((Reached::AlreadyHalted, 0));
    }
    let mut prev_done = b.is_instruction_done();
    let mut n = 0u32;
    loop {
        let before = b.clone();
        b.trigger_key_clock();
        n += 1;
        if b.state() != State::Running {
            return Ok((Reached::Halt, n));
        }
        let done = b.is_instruction_done();
        if done && !prev_done {
            return Ok((Reached::Boundary, n));
        }
        prev_done = done;
        if *b == before {
            return Ok((Reached::FixedPoint, n));
        }
        if n > EDGE_BOUND {
            return Err(format!("no instruction boundary, halt or fixed point within {} single clock edges", EDGE_BOUND));
        }
    }
}

fn same_but_mode(a: &Machine, b: &Machine) -> bool {
    let mut a2 = a.clone();
    a2.set_step_mode(b.step_mode());
    a2 == *b
}

fn first_diff(a: &Machine, b: &Machine) -> String {
    let ra = a.registers().content();
    let rb = b.registers().content();
    for i in 0..8 {
        if ra[i] != rb[i] {
            return format!("R{} asm-stepped=0x{:02X} clock-stepped=0x{:02X}", i, ra[i], rb[i]);
        }
    }
    if a.state() != b.state() {
        return format!("state asm-stepped={} clock-stepped={}", state_name(a.state()), state_name(b.state()));
    }
    if a.is_instruction_done() != b.is_instruction_done() {
        return format!("at-boundary asm-stepped={} clock-stepped={}", a.is_instruction_done(), b.is_instruction_done());
    }
    if a.word().bits() != b.word().bits() {
        return format!("IR asm-stepped=0x{:02X} clock-stepped=0x{:02X}", a.word().bits(), b.word().bits());
    }
    let (ma, mb) = (a.bus().memory(), b.bus().memory());
    for i in 0..240 {
        if ma[i] != mb[i] {
            return format!("RAM[0x{:02X}] asm-stepped=0x{:02X} clock-stepped=0x{:02X}", i, ma[i], mb[i]);
        }
    }
    "hidden state (pending write / wait / micro-address / bus) differs".into()
}

pub fn fork_oracle(r: &Machine, chain: u32, t: u32, ctx: &mut Ctx) -> Result<(), Violation> {
    let mut a = r.clone();
    a.set_step_mode(StepMode::Assembly);
    let mut b = r.clone();
    for k in 0..chain {
        let phase = mix(
            mix(class_of(b.word().bits()) as u64, b.is_instruction_done() as u64),
            (b.state() != State::Running) as u64 * 2 + b.signals().interrupt_flipflop_1() as u64,
        );
        a.trigger_key_clock();
        let (reached, n) = real_step(&mut b).map_err(|e| v("clock-stepping", t, e))?;
        ctx.cov.sim_edges += 2 * n as u64;
        ctx.cov.distinct(mix(phase, reached as u64));
        ctx.cov.probe(match reached {
            Reached::Boundary => "fork:to-boundary",
            Reached::Halt => "fork:halt-ends-step-early",
            Reached::FixedPoint => "fork:undefined-opcode-fixed-point",
            Reached::AlreadyHalted => "fork:already-halted",
        });
        if !same_but_mode(&a, &b) {
            return Err(v(
                "asm-step-differs",
                t,
                format!(
                    "assembly step {} of a fork differs from {} single clock edges to the next {:?}: {}",
                    k + 1,
                    n,
                    reached,
                    first_diff(&a, &b)
                ),
            ));
        }
    }
    Ok(())
}

fn run_plane(op: u8, a: u8, only: Option<u32>, ctx: &mut Ctx) -> Result<(), Violation> {
    for b in 0..=255u8 {
        if only.map(|o| o != b as u32).unwrap_or(false) {
            continue;
        }
        // without and with a key interrupt pending (the entry sequence then rides on the same step)
        for irq in [false, true] {
            let mut setup = Setup::plain(vec![op, 0x02, 0x01], 0, Some(0xFF));
            let d = (op & 3) as usize;
            let s = ((op >> 2) & 3) as usize;
            let mut regs = [0u8; 8];
            regs[s] = b;
            regs[d] = a;
            regs[4] = if irq { 0x08 } else { 0 };
            regs[5] = 0xEF;
            setup.regs = Some(regs);
            let mut r = setup.build();
            if irq {
                // past the reset sequence first (its end would take the interrupt), then the press
                let mut k = 0;
                while !r.is_instruction_done() && k < 20 {
                    r.trigger_key_clock();
                    k += 1;
                }
                let _ = r.raw_mut().bus_mut().write(0xF9, 1);
                let _ = r.trigger_key_interrupt();
                ctx.cov.probe("plane-with-interrupt-pending");
            }
            // forks at the boundary, in the first micro-steps and deep inside the loop
            for t in 0..40u32 {
                ctx.cov.evaluations += 1;
                fork_oracle(&r, if irq { 2 } else { 1 }, b as u32, ctx)?;
                r.trigger_key_clock();
                if t > 6 {
                    for _ in 0..13 {
                        r.trigger_key_clock();
                    }
                }
            }
        }
    }
    Ok(())
}

/// "switching step mode at any point does not alter the computation", at the place a user switches
/// it: the TUI's Ctrl+W handler (`MachineState::toggle_step_mode`, real code of the binary crate)
/// is given a copy of the machine; one toggle must change the step mode and nothing else, a second
/// one must give the machine back unchanged.
fn frontend_toggle_oracle(ms: &mut crate::tui::MachineState, r: &Machine, t: u32, ctx: &mut Ctx) -> Result<(), Violation> {
    ms.machine = r.clone();
    ms.toggle_step_mode();
    let switched = ms.machine.step_mode() != r.step_mode();
    if !switched || !same_but_mode(&ms.machine, r) {
        let why = if !switched { "the step mode did not change".to_string() } else { first_diff(&ms.machine, r) };
        return Err(v("mode-switch-alters-machine", t, format!("the TUI's step-mode toggle (Ctrl+W) changed more than the step mode: {}", why)));
    }
    ms.toggle_step_mode();
    if ms.machine != *r {
        return Err(v("mode-switch-alters-machine", t, format!("toggling the step mode twice in the TUI does not give the machine back: {}", first_diff(&ms.machine, r))));
    }
    ctx.cov.probe("frontend-mode-toggle");
    Ok(())
}

fn run(scn: &Scn, ctx: &mut Ctx) -> Result<(), Violation> {
    if let Some((op, a)) = scn.plane {
        return run_plane(op, a, scn.only, ctx);
    }
    let s = &scn.seq;
    if scn.hist {
        let mut a = s.setup.build();
        a.set_step_mode(StepMode::Assembly);
        let mut b = s.setup.build();
        b.set_step_mode(StepMode::Real);
        let mut next = 0usize;
        for t in 0..s.max_edges {
            while next < s.events.len() && s.events[next].0 <= t {
                let st = &s.events[next].1;
                next += 1;
                if let Stim::Mode(_) = st {
                    continue;
                }
                st.apply(&mut a);
                st.apply(&mut b);
                ctx.cov.fault(st.kind());
                if !same_but_mode(&a, &b) {
                    return Err(v("stimulus-depends-on-step-mode", t, format!("history: {} applied in Assembly step mode leaves a different machine than in Real mode: {}", st.kind(), first_diff(&a, &b))));
                }
            }
            ctx.cov.evaluations += 1;
            a.trigger_key_clock();
            let (reached, n) = real_step(&mut b).map_err(|e| v("clock-stepping", t, e))?;
            ctx.cov.sim_edges += 2 * n as u64;
            ctx.cov.probe(match reached {
                Reached::Boundary => "history:to-boundary",
                Reached::Halt => "history:halt-ends-step-early",
                Reached::FixedPoint => "history:undefined-opcode-fixed-point",
                Reached::AlreadyHalted => "history:already-halted",
            });
            if !same_but_mode(&a, &b) {
                return Err(v(
                    "asm-step-differs",
                    t,
                    format!("history: assembly step {} of one machine differs from {} single clock edges of its shadow to the next {:?}: {}", t + 1, n, reached, first_diff(&a, &b)),
                ));
            }
            ctx.tr(mix(t as u64, a.registers().content()[3] as u64));
        }
        return Ok(());
    }
    let mut r = s.setup.build();
    r.set_step_mode(StepMode::Real);
    let mut frontend = crate::tui::MachineState::new(&crate::args::InitialMachineConfiguration::default());
    let mut next = 0usize;
    for t in 0..s.max_edges {
        while next < s.events.len() && s.events[next].0 <= t {
            let st = &s.events[next].1;
            next += 1;
            if let Stim::Mode(_) = st {
                continue;
            }
            // a stimulus must act on the machine alone, whatever the step mode is: apply it to a twin
            // that sits in Assembly mode and compare (CONTINUE, key presses, resets, inputs ...)
            let mut twin = r.clone();
            twin.set_step_mode(StepMode::Assembly);
            st.apply(&mut twin);
            st.apply(&mut r);
            ctx.cov.fault(st.kind());
            if !same_but_mode(&twin, &r) {
                return Err(v(
                    "stimulus-depends-on-step-mode",
                    t,
                    format!("{} applied in Assembly step mode leaves a different machine than in Real mode: {}", st.kind(), first_diff(&twin, &r)),
                ));
            }
        }
        if scn.only.map(|o| o == t).unwrap_or(true) {
            ctx.cov.evaluations += 1;
            if !r.is_instruction_done() && r.state() == State::Running {
                ctx.cov.probe("fork:mid-instruction");
            }
            if r.signals().interrupt_flipflop_1() && r.state() == State::Running {
                ctx.cov.probe("fork:interrupt-pending");
            }
            fork_oracle(&r, scn.chain, t, ctx)?;
            frontend_toggle_oracle(&mut frontend, &r, t, ctx)?;
        }
        r.trigger_key_clock();
        ctx.cov.sim_edges += 1;
        ctx.tr(mix(t as u64, r.registers().content()[3] as u64));
    }
    Ok(())
}

impl Check for C11 {
    type Scn = Scn;
    fn id(&self) -> &'static str {
        "C11"
    }
    fn level(&self) -> &'static str {
        "fault_enumeration"
    }
    fn runs(&self, tier: Tier) -> u64 {
        match tier {
            Tier::Quick => SWEEP + PLANES + 3_000,
            Tier::Thorough => SWEEP + PLANES + 600_000,
        }
    }
    fn generate(&self, rng: &mut Rng, _tier: Tier, idx: u64) -> Scn {
        if idx < SWEEP {
            // termination and equality for every opcode byte at the program counter (x every second byte)
            let (b1, b2) = if idx < 240 { (idx as u8, None) } else { (0xF0 + ((idx - 240) / 256) as u8, Some(((idx - 240) % 256) as u8)) };
            let mut bytes = vec![b1];
            if b1 >= 0xF0 && (b1 & 3) == 3 && (b1 >> 2) & 3 >= 2 {
                bytes.push(0x80);
            }
            if let Some(b) = b2 {
                bytes.push(b);
                bytes.push(0x90);
            }
            bytes.extend_from_slice(&[0x02, 0x02, 0x01]);
            return Scn { seq: SeqScn { setup: Setup::plain(bytes, 0, Some(0xFF)), events: vec![], max_edges: 24 }, chain: 2, only: None, plane: None, hist: false };
        }
        if idx < SWEEP + PLANES {
            let j = idx - SWEEP;
            let op = if j < 256 { 0xC4 } else { 0xB4 }; // DIV R0,R1 / MUL R0,R1
            return Scn { seq: SeqScn { setup: Setup::plain(vec![], 0, Some(0xFF)), events: vec![], max_edges: 0 }, chain: 1, only: None, plane: Some((op, (j % 256) as u8)), hist: false };
        }
        let kind = rng.below(10);
        let (bytes, stack, limit) = match kind {
            0..=3 => {
                let o = HazardOpts { len: 10 + rng.usize(60), wild: rng.bool(), run_into_io: rng.chance(1, 10), with_ei: true, irq: None };
                (gen::hazard_program(rng, o), gen::pick_stack(rng), Some(0xFF))
            }
            4..=6 => {
                let irq = IrqOpts { enable_key: true, di_windows: rng.bool(), nested_ei: rng.chance(1, 4), isr_work: rng.bool(), enable_by_store: rng.bool(), mask_windows: false, mid_stop: false, isr_ei_first: false };
                let o = HazardOpts { len: 6 + rng.usize(30), wild: false, run_into_io: false, with_ei: true, irq: Some(irq) };
                (gen::hazard_program(rng, o), *rng.pick(&[0u8, 32]), Some(0xFF))
            }
            7 | 8 => {
                let len = 240;
                (gen::biased_image(rng, len), gen::pick_stack(rng), gen::pick_limit(rng, len))
            }
            _ => (gen::uniform_image(rng, 240), gen::pick_stack(rng), Some(0xFF)),
        };
        let mut regs = [0u8; 8];
        for x in regs.iter_mut() {
            *x = rng.u8();
        }
        regs[3] = 0;
        regs[5] = gen::valid_sp(rng, stack);
        let hist = idx % 4 == 1;
        let max_edges = if hist { 20 + rng.below(160) as u32 } else { 150 + rng.below(900) as u32 };
        let nev = rng.below(8);
        let mut events: Vec<(u32, Stim)> = (0..nev)
            .map(|_| {
                let t = rng.below(max_edges as u64) as u32;
                let s = match rng.below(6) {
                    0..=2 => Stim::KeyInt,
                    3 => Stim::Continue,
                    4 => Stim::CpuReset,
                    _ => random_stim(rng, false),
                };
                (t, s)
            })
            .collect();
        events.sort_by_key(|e| e.0);
        Scn {
            seq: SeqScn {
                setup: Setup { image: Image { bytes, stack, limit, keep_limit: false }, regs: Some(regs), pokes: vec![], inputs: [rng.u8(), rng.u8(), rng.u8(), rng.u8()], asm_mode: false },
                events,
                max_edges,
            },
            chain: 1 + rng.below(3) as u32,
            only: None,
            plane: None,
            hist,
        }
    }
    fn execute(&self, scn: &Scn, ctx: &mut Ctx) -> Result<(), Violation> {
        run(scn, ctx)
    }
    fn shrink(&self, scn: &Scn, v: &Violation) -> Vec<Scn> {
        let mut out = vec![];
        if scn.only.is_none() && !scn.hist {
            if let Some(e) = crate::engine::edge_of(&v.detail) {
                let mut c = scn.clone();
                c.only = Some(e);
                out.push(c);
            }
        }
        if scn.chain > 1 {
            let mut c = scn.clone();
            c.chain = 1;
            out.push(c);
        }
        if scn.plane.is_some() {
            return out;
        }
        out.extend(shrink_seq(&scn.seq, v).into_iter().map(|s| {
            let only = scn.only.filter(|o| *o < s.max_edges);
            Scn { seq: s, chain: scn.chain, only, plane: scn.plane, hist: scn.hist }
        }));
        out
    }
    fn rule(&self) -> String {
        "Sweep: every first opcode byte at the program counter (and every second byte for 0xF0-0xFF), forked at each of the first 24 edges. Sampled: hazard programs, interrupt programs with key presses, opcode-biased and uniform random images, with key/continue/reset/input stimuli on arbitrary edges; the fork oracle runs at EVERY clock edge of every run with chains of 1-3 assembly steps. One sampled run in four is a history instead: one machine is stepped in Assembly mode 20-180 times with the stimuli landing between steps, next to a Real-mode shadow clocked to the next boundary for every step; both must agree after every step and every stimulus. At every fork point the TUI's step-mode toggle (MachineState::toggle_step_mode) is also applied to a copy: once = only the mode changes, twice = identity. evaluations = forks (history: steps); distinct = distinct (opcode class in IR, at-boundary?, halted?, interrupt pending?, how the step ended) fork phases.".into()
    }
    fn assumptions(&self) -> Vec<String> {
        vec![
            "model-free: the only ingredients are Machine::clone, ==, trigger_key_clock in both modes, is_instruction_done() and state()".into(),
            "'next instruction boundary' = first false->true transition of is_instruction_done(); for an undefined opcode (no boundary exists) the comparison point is the fixed point single clock edges converge to".into(),
            "a step that does not return is caught by the driver's wall-clock watchdog and reported as a violation (oracle no-return)".into(),
        ]
    }
    fn components(&self) -> Value {
        json!({"Machine::trigger_key_clock (both step modes), RawMachine": "real", "MachineState::toggle_step_mode (the TUI's Ctrl+W handler, compiled in from /repo/emulator-2a/src by #[path])": "real", "fork scheduler, PRNG": "harness", "reference interpreter": "not used"})
    }
    fn sample(&self, s: &Scn) -> Value {
        json!({
            "image_head": s.seq.setup.image.bytes.iter().take(24).map(|b| format!("{:02X}", b)).collect::<Vec<_>>().join(" "),
            "stack": s.seq.setup.image.stack, "limit": s.seq.setup.image.limit, "events": s.seq.events.iter().map(|(t, e)| json!([t, e.kind()])).collect::<Vec<_>>(),
            "max_edges": s.seq.max_edges, "chain": s.chain,
        })
    }
    fn must_fire(&self, _tier: Tier) -> Vec<String> {
        ["fork:to-boundary", "fork:halt-ends-step-early", "fork:undefined-opcode-fixed-point", "fork:already-halted", "fork:mid-instruction", "fork:interrupt-pending", "history:to-boundary", "history:halt-ends-step-early", "history:undefined-opcode-fixed-point", "history:already-halted", "frontend-mode-toggle"].iter().map(|s| s.to_string()).collect()
    }
    fn exhaustive_dims(&self, _tier: Tier) -> Vec<String> {
        vec!["fork point: every clock edge of each run".into(), "opcode byte at PC 0..255 (x second byte 0..255)".into()]
    }
}
