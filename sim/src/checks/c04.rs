//! C04: key interrupts are taken once, at an instruction boundary, and transparently.
//! Fault-placement sweep: for a generated (main program, ISR) pair, first an uninterrupted run,
//! then EVERY clock edge 0..T as the trigger point (each re-run forked from a checkpoint clone of
//! the uninterrupted run), and every ordered pair of trigger edges in a seeded window.
use crate::driver::{mix, Check, Ctx, Tier, Violation};
use crate::gen::{self, HazardOpts, IrqOpts, IRQ_COUNTER, IRQ_SCRATCH};
use crate::isa::Class;
use crate::lockstep::{Compare, Ended, Event, LockStep};
use crate::prng::Rng;
use crate::sut::{control_word, Image, Setup, Stim};
use emulator_2a_lib::machine::{MicroprogramRam, State};
use serde::{Deserialize, Serialize};
use serde_json::{json, Value};

pub struct C04;

#[derive(Clone, Debug, Serialize, Deserialize)]
pub struct Scn {
    pub setup: Setup,
    pub enable_key: bool,
    pub di_windows: bool,
    pub nested_ei: bool,
    #[serde(default)]
    pub mask_windows: bool,
    /// the main body contains a STOP; after `halt_len` halted edges the continue key is pressed
    #[serde(default)]
    pub mid_stop: bool,
    #[serde(default)]
    pub halt_len: u32,
    /// start and width of the window swept with ordered pairs of presses
    pub pair_window: (u32, u32),
    /// restrict the sweep to these trigger edges (set by minimisation); empty = all
    pub only: Vec<u32>,
    pub max_edges: u32,
}

const CODE_END: usize = 0xC8; // code, data and pointer cells live below; stack above

fn v(oracle: &str, d: String) -> Violation {
    Violation::new("C04", oracle, d)
}

struct Base {
    /// final lock-step state of the uninterrupted run
    end: LockStep,
    /// first boundary edge at which both the key-edge enable bit and IE are set, if any
    t_enabled: Option<i64>,
    /// edge of the last sampling instruction end before the final STOP halts the machine
    t_stop_fetch: i64,
    total: i64,
}

/// a lock-step run plus the driver state of the mid-body STOP (halted edges so far, continued?)
#[derive(Clone)]
struct Run {
    ls: LockStep,
    idle: u32,
    continued: bool,
}

impl Run {
    fn new(scn: &Scn) -> Run {
        Run { ls: new_ls(scn), idle: 0, continued: false }
    }
    fn live(&self, scn: &Scn) -> bool {
        self.ls.ended.is_none() || self.at_mid_stop(scn)
    }
    fn at_mid_stop(&self, scn: &Scn) -> bool {
        scn.mid_stop && !self.continued && self.ls.ended == Some(Ended::Halted) && self.ls.sut.state() == State::Stopped
    }
    /// one clock edge, or (after `halt_len` halted edges at the mid-body STOP) the continue key
    fn step(&mut self, scn: &Scn) -> Result<Event, Violation> {
        if self.at_mid_stop(scn) {
            if self.idle < scn.halt_len {
                self.idle += 1;
                return self.ls.tick();
            }
            self.continued = true;
            self.ls.stim(&Stim::Continue)?;
            return Ok(Event::None);
        }
        self.ls.tick()
    }
}

fn new_ls(scn: &Scn) -> LockStep {
    let mut ls = LockStep::new("C04", &scn.setup);
    ls.compare = Compare::Int;
    ls.check_cost = false;
    ls
}

fn in_entry_block(ls: &LockStep) -> bool {
    let w = control_word(&ls.sut);
    (0x10..=0x16).any(|i| MicroprogramRam::CONTENT[i].bits() == w) && !ls.sut.is_instruction_done() && ls.sut.word().bits() == 0x02
}

fn press_cov(ls: &LockStep, second: bool, ctx: &mut Ctx) {
    let cls = ls.inflight_class();
    let off = ls.edges_since_boundary().clamp(0, 60) as u64;
    ctx.cov.distinct(mix(mix(cls as u64, off), second as u64));
    let name = match cls {
        Class::Mul => "press-inside-MUL",
        Class::Div => "press-inside-DIV",
        Class::Call => "press-inside-CALL",
        Class::Pop => "press-inside-POP/RET",
        Class::Ei => "press-during-EI",
        Class::Di => "press-during-DI",
        Class::Reti => "press-during-RETI",
        Class::Reset => "press-during-reset-sequence",
        Class::Push | Class::PushF => "press-inside-PUSH",
        Class::Mov => "press-inside-two-byte-instruction",
        _ => "press-inside-other",
    };
    ctx.cov.probe(name);
    if ls.sut.signals().interrupt_flipflop_1() {
        ctx.cov.probe(if second { "second-press-while-first-pending" } else { "press-while-pending" });
    }
    if in_entry_block(ls) {
        ctx.cov.probe("press-during-entry-sequence");
    }
    if second && ls.entries > 0 && ls.sut.registers().content()[3] >= 5 && !ls.sut.registers().interrupt_enable_flag() {
        ctx.cov.probe("second-press-inside-ISR");
    }
    if ls.sut.is_instruction_done() && ls.edges_since_boundary() >= 1 {
        ctx.cov.probe("press-during-memory-wait-of-fetch");
    }
}

/// run a (forked) lock-step to the end; returns Err on a violation
fn finish(run: &mut Run, scn: &Scn, limit: i64, ctx: &mut Ctx, presses: &[(u32, Stim)], what: &str) -> Result<(), Violation> {
    let mut idx = 0usize;
    while run.live(scn) {
        while idx < presses.len() && presses[idx].0 as i64 <= run.ls.edge {
            press_cov(&run.ls, true, ctx);
            run.ls.stim(&presses[idx].1).map_err(|mut e| {
                e.detail = format!("{}: {}", what, e.detail);
                e
            })?;
            ctx.cov.fault("K-BOUNCE");
            idx += 1;
        }
        if run.ls.edge > limit {
            return Err(v("no-termination", format!("{}: run did not reach STOP within {} edges (uninterrupted run needs fewer)", what, limit)));
        }
        let e0 = run.ls.edge;
        run.step(scn).map_err(|mut e| {
            e.detail = format!("{}: {}", what, e.detail);
            e
        })?;
        ctx.cov.sim_edges += (run.ls.edge - e0) as u64;
    }
    Ok(())
}

fn transparent(base: &LockStep, f: &LockStep, what: &str) -> Result<(), Violation> {
    if f.ended != Some(Ended::Halted) || f.sut.state() != State::Stopped {
        return Err(v("transparency", format!("{}: interrupted run ended {:?}/{:?}, uninterrupted run stopped regularly", what, f.ended, f.sut.state())));
    }
    let a = base.sut.registers().content();
    let b = f.sut.registers().content();
    const N: [&str; 6] = ["R0", "R1", "R2", "PC", "FR", "SP"];
    for i in 0..6 {
        if a[i] != b[i] {
            return Err(v("transparency", format!("{}: {} ends 0x{:02X}, uninterrupted run 0x{:02X}", what, N[i], b[i], a[i])));
        }
    }
    if base.sut.bus().output_fe() != f.sut.bus().output_fe() || base.sut.bus().output_ff() != f.sut.bus().output_ff() {
        return Err(v("transparency", format!("{}: output registers differ from the uninterrupted run", what)));
    }
    let ma = base.sut.bus().memory();
    let mb = f.sut.bus().memory();
    let sp = b[5] as usize;
    for i in 0..0xF0usize {
        let dead_stack = i >= CODE_END && i < sp;
        if i == IRQ_COUNTER as usize || i == IRQ_SCRATCH as usize || dead_stack {
            continue;
        }
        if ma[i] != mb[i] {
            return Err(v("transparency", format!("{}: RAM[0x{:02X}] ends 0x{:02X}, uninterrupted run 0x{:02X}", what, i, mb[i], ma[i])));
        }
    }
    Ok(())
}

fn run_base(scn: &Scn, ctx: &mut Ctx) -> Result<Option<Base>, Violation> {
    let mut run = Run::new(scn);
    let mut t_enabled = None;
    let mut t_stop_fetch = 0;
    while run.live(scn) {
        if run.ls.edge > scn.max_edges as i64 {
            return Ok(None);
        }
        let ev = run.step(scn)?;
        let ls = &run.ls;
        ctx.cov.sim_edges += 1;
        if ev == Event::Boundary {
            if t_enabled.is_none() && ls.sut.bus().is_key_edge_int_enabled() && ls.sut.registers().interrupt_enable_flag() {
                t_enabled = Some(ls.edge);
            }
            // the last instruction end that samples the key flip-flop (EI, DI and RETI do not; G)
            if ls.last.as_ref().map(|i| i.samples).unwrap_or(false) {
                t_stop_fetch = ls.edge;
            }
        }
    }
    if scn.mid_stop && !run.continued {
        return Ok(None);
    }
    let ls = run.ls;
    if ls.ended != Some(Ended::Halted) || ls.sut.state() != State::Stopped {
        return Ok(None); // program family guarantees STOP; anything else is skipped, not judged
    }
    let total = ls.edge;
    Ok(Some(Base { end: ls, t_enabled, t_stop_fetch, total }))
}

impl C04 {
    fn sweep(&self, scn: &Scn, ctx: &mut Ctx) -> Result<(), Violation> {
        let base = match run_base(scn, ctx)? {
            Some(b) => b,
            None => {
                ctx.cov.extra("programs-skipped(no regular stop within the budget)", 1);
                return Ok(());
            }
        };
        ctx.cov.extra("programs-swept", 1);
        if base.end.sut.bus().memory()[IRQ_COUNTER as usize] != 0 {
            return Err(v("spurious-entry", "the interrupt routine ran although no key was pressed".into()));
        }
        let plain = scn.enable_key && !scn.di_windows && !scn.nested_ei && !scn.mask_windows;
        let limit = base.total + 4000; // an ISR with a worst-case DIV costs ~600 edges; two (nested) entries plus slack
        // ---- single press at every edge ----
        let mut run = Run::new(scn);
        let (w0, wl) = scn.pair_window;
        while run.live(scn) {
            let t = run.ls.edge as u32; // the press precedes edge t+1
            // (the step that presses CONTINUE does not advance the edge count: press only once per edge)
            let fresh_edge = !(run.at_mid_stop(scn) && run.idle >= scn.halt_len);
            if fresh_edge && (scn.only.is_empty() || scn.only[0] == t) {
                let ls = &run.ls;
                let mut f = run.clone();
                press_cov(&f.ls, false, ctx);
                f.ls.stim(&Stim::KeyInt)?;
                let latched = f.ls.presses.last().map(|p| p.1).unwrap_or(false);
                ctx.cov.fault(if latched { "K-INT" } else { "K-MASKED" });
                if run.at_mid_stop(scn) {
                    ctx.cov.probe(if latched { "press-while-halted-at-STOP(enabled)" } else { "press-while-halted-at-STOP(masked)" });
                }
                if scn.mask_windows {
                    if !latched && base.t_enabled.map(|te| ls.edge >= te).unwrap_or(false) {
                        ctx.cov.probe("press-inside-mask-window");
                    }
                    if latched && !ls.sut.is_instruction_done() {
                        // does the instruction in flight clear the enable bit before its end?
                        let mut c = ls.sut.clone();
                        let mut k = 0;
                        while !c.is_instruction_done() && k < 40 {
                            c.trigger_key_clock();
                            k += 1;
                        }
                        if !c.bus().is_key_edge_int_enabled() {
                            ctx.cov.probe("press-latched-then-masked-before-the-boundary");
                        }
                    }
                }
                let what = format!("press before edge {}", t + 1);
                let second: Vec<(u32, Stim)> = if scn.only.len() > 1 { vec![(scn.only[1], Stim::KeyInt)] } else { vec![] };
                if scn.only.len() <= 1 {
                    let mut g = f.clone();
                    finish(&mut g, scn, limit, ctx, &[], &what)?;
                    ctx.cov.evaluations += 1;
                    self.judge(scn, &base, &g.ls, t as i64 + 1, plain, &what)?;
                }
                // ---- ordered pairs inside the window ----
                if (t >= w0 && t < w0 + wl) || scn.only.len() > 1 {
                    let mut h = f.clone();
                    let hi = if scn.only.len() > 1 { scn.only[1] + 1 } else { w0 + wl };
                    while h.live(scn) && (h.ls.edge as u32) < hi {
                        let t2 = h.ls.edge as u32;
                        let fresh2 = !(h.at_mid_stop(scn) && h.idle >= scn.halt_len);
                        if fresh2 && (second.is_empty() || second[0].0 == t2) {
                            let mut g = h.clone();
                            let what2 = format!("presses before edges {} and {}", t + 1, t2 + 1);
                            finish(&mut g, scn, limit, ctx, &[(t2, Stim::KeyInt)], &what2)?;
                            ctx.cov.evaluations += 1;
                            self.judge_pair(scn, &base, &g.ls, &what2)?;
                        }
                        let e0 = h.ls.edge;
                        h.step(scn).map_err(|mut e| {
                            e.detail = format!("{}: {}", what, e.detail);
                            e
                        })?;
                        ctx.cov.sim_edges += (h.ls.edge - e0) as u64;
                    }
                }
            }
            run.step(scn)?;
            ctx.cov.sim_edges += 1;
        }
        Ok(())
    }

    fn judge(&self, scn: &Scn, base: &Base, g: &LockStep, n: i64, plain: bool, what: &str) -> Result<(), Violation> {
        let cnt = g.sut.bus().memory()[IRQ_COUNTER as usize] as u64;
        // exactly-once: the ISR-maintained counter equals the number of entries the reference saw
        if cnt != g.entries & 0xFF {
            return Err(v("entry-count", format!("{}: interrupt routine counted {} entries, reference predicts {}", what, cnt, g.entries)));
        }
        if !scn.enable_key && cnt != 0 {
            return Err(v("masked-entry", format!("{}: routine entered {} time(s) although the key-edge enable bit was never set", what, cnt)));
        }
        if plain {
            if let Some(te) = base.t_enabled {
                // enabled and IE set from `te` on; presses up to the last sampling instruction end count
                if n > te && n <= base.t_stop_fetch && cnt != 1 {
                    return Err(v("exactly-once", format!("{}: key enabled and IE set, routine entered {} times instead of exactly once", what, cnt)));
                }
                if n > base.t_stop_fetch && cnt != 0 {
                    return Err(v("exactly-once", format!("{}: press after the last instruction boundary entered the routine {} times", what, cnt)));
                }
            }
        }
        transparent(&base.end, g, what)
    }

    fn judge_pair(&self, scn: &Scn, base: &Base, g: &LockStep, what: &str) -> Result<(), Violation> {
        let cnt = g.sut.bus().memory()[IRQ_COUNTER as usize] as u64;
        if cnt != g.entries & 0xFF {
            return Err(v("entry-count", format!("{}: interrupt routine counted {} entries, reference predicts {}", what, cnt, g.entries)));
        }
        if !scn.enable_key && cnt != 0 {
            return Err(v("masked-entry", format!("{}: routine entered {} time(s) although the key-edge enable bit was never set", what, cnt)));
        }
        if cnt > 2 {
            return Err(v("exactly-once", format!("{}: two presses entered the routine {} times", what, cnt)));
        }
        transparent(&base.end, g, what)
    }
}

impl Check for C04 {
    type Scn = Scn;
    fn id(&self) -> &'static str {
        "C04"
    }
    fn level(&self) -> &'static str {
        "fault_enumeration"
    }
    fn runs(&self, tier: Tier) -> u64 {
        match tier {
            Tier::Quick => 3_000,
            Tier::Thorough => 150_000,
        }
    }
    fn generate(&self, rng: &mut Rng, _tier: Tier, _idx: u64) -> Scn {
        let variant = rng.below(10);
        let irq = IrqOpts {
            enable_key: variant != 0,
            di_windows: variant == 1 || variant == 2,
            nested_ei: variant == 3,
            isr_work: rng.chance(2, 3),
            enable_by_store: rng.bool(),
            mask_windows: variant == 8 || variant == 9,
            mid_stop: variant == 7 || variant == 9 || variant == 2,
            isr_ei_first: variant == 3 && rng.bool(),
        };
        let o = HazardOpts { len: 6 + rng.usize(30), wild: false, run_into_io: false, with_ei: true, irq: Some(irq) };
        let (bytes, mid_stop) = gen::hazard_program_ex(rng, o);
        let stack = if irq.nested_ei { *rng.pick(&[0u8, 32]) } else { *rng.pick(&[16u8, 16, 0, 32, 64]) };
        let mut regs = [0u8; 8];
        for r in regs.iter_mut() {
            *r = rng.u8();
        }
        regs[3] = 0;
        regs[5] = gen::valid_sp(rng, stack);
        if !irq.enable_by_store {
            // `BITS (0xF9),1` reads the status register, whose content no property specifies: the
            // reference resynchronises after it, so no interrupt may be taken at its end
            regs[4] &= !0x08;
        }
        let w = 16 + rng.below(100) as u32;
        Scn {
            setup: Setup {
                image: Image { bytes, stack, limit: Some(0xFF), keep_limit: false },
                regs: Some(regs),
                pokes: vec![],
                inputs: [rng.u8(), rng.u8(), rng.u8(), rng.u8()],
                asm_mode: false,
            },
            enable_key: irq.enable_key,
            di_windows: irq.di_windows,
            nested_ei: irq.nested_ei,
            mask_windows: irq.mask_windows,
            mid_stop,
            halt_len: if mid_stop { rng.below(12) as u32 } else { 0 },
            pair_window: (rng.below(400) as u32, w),
            only: vec![],
            max_edges: 3500,
        }
    }
    fn execute(&self, scn: &Scn, ctx: &mut Ctx) -> Result<(), Violation> {
        self.sweep(scn, ctx)
    }
    fn shrink(&self, scn: &Scn, v: &Violation) -> Vec<Scn> {
        let mut out = vec![];
        if scn.only.is_empty() {
            // "press before edge N" / "presses before edges N and M"
            let nums: Vec<u32> = {
                let d = &v.detail;
                let head = d.split(':').next().unwrap_or("");
                head.split(|c: char| !c.is_ascii_digit()).filter(|s| !s.is_empty()).filter_map(|s| s.parse().ok()).collect()
            };
            if v.detail.starts_with("press before edge") && !nums.is_empty() {
                let mut c = scn.clone();
                c.only = vec![nums[0] - 1];
                out.push(c);
            } else if v.detail.starts_with("presses before edges") && nums.len() >= 2 {
                let mut c = scn.clone();
                c.only = vec![nums[0] - 1, nums[1] - 1];
                out.push(c);
            }
        }
        if let Some(r) = scn.setup.regs {
            for i in 0..8 {
                if r[i] != 0 && i != 5 {
                    let mut c = scn.clone();
                    let mut rr = r;
                    rr[i] = 0;
                    c.setup.regs = Some(rr);
                    out.push(c);
                }
            }
        }
        // (the program itself is not edited: the exactly-once and transparency oracles rely on the
        // invariants of the program family - balanced typed stack, ISR preserving registers - which
        // byte-level edits would break, turning a true alarm into a false one)
        out
    }
    fn rule(&self) -> String {
        "Per sampled (main program, ISR) pair: an uninterrupted run, then one run per clock edge t in 0..T with the key pressed right before edge t+1 (forked from a checkpoint of the uninterrupted run), then every ordered pair of press edges inside a seeded window of 16-115 edges. Programs: hazard-biased bodies (ALU incl. MUL/DIV, all addressing modes on a private data area, typed PUSH/POP/PUSHF/POPF, CALL/RET, conditional jumps, bounded loops, self-modifying stores, writes to FE/FF) behind `JR MAIN; JR ISR; LDSP; BITS (0xF9),1; EI`; variants: key never enabled, DI windows / IE-clearing flag loads, nested EI in the ISR, mask windows (enable bit cleared by a store to 0xF9 and set again later, or rewritten with bit 0 still set), a STOP in the middle of the main body that the driver leaves with the continue key after 0-11 halted edges (presses while halted included in the sweep). evaluations = interrupted runs; distinct = distinct (instruction class in flight, edges since the last boundary, first/second press) placements.".into()
    }
    fn assumptions(&self) -> Vec<String> {
        vec![
            "oracle 1 (entry/RETI details) uses R-ISA; boundaries that are not an interrupt entry or RETI resynchronise silently (C01's business)".into(),
            "oracle 3 (transparency) is model-free: end state equals the uninterrupted run's except the ISR's counter/scratch cells and dead stack bytes strictly below the final SP".into(),
            "a press whose flip-flop is sampled while IE is clear is dropped by the tree (golden); the exactly-once assertion is made only for the variant in which enable bit and IE stay set".into(),
        ]
    }
    fn components(&self) -> Value {
        json!({"Machine, RawMachine, Bus, Board, control store": "real", "R-ISA (entry, RETI), scheduler, PRNG": "harness"})
    }
    fn sample(&self, s: &Scn) -> Value {
        json!({
            "image": s.setup.image.bytes.iter().take(0x98).map(|b| format!("{:02X}", b)).collect::<Vec<_>>().join(" "),
            "stack": s.setup.image.stack, "regs": s.setup.regs, "enable_key": s.enable_key, "di_windows": s.di_windows,
            "nested_ei": s.nested_ei, "mask_windows": s.mask_windows, "mid_stop": s.mid_stop, "halt_len": s.halt_len, "pair_window": [s.pair_window.0, s.pair_window.1],
        })
    }
    fn must_fire(&self, _tier: Tier) -> Vec<String> {
        ["K-INT", "K-MASKED", "K-BOUNCE", "press-inside-MUL", "press-inside-DIV", "press-inside-CALL", "press-during-EI", "press-during-RETI", "press-during-entry-sequence", "second-press-while-first-pending", "second-press-inside-ISR", "press-during-memory-wait-of-fetch", "press-during-reset-sequence", "press-inside-mask-window", "press-latched-then-masked-before-the-boundary", "press-while-halted-at-STOP(enabled)"]
            .iter()
            .map(|s| s.to_string())
            .collect()
    }
    fn exhaustive_dims(&self, _tier: Tier) -> Vec<String> {
        vec!["trigger edge 0..T of each sampled program (single press)".into(), "ordered pairs of trigger edges inside the sampled window".into()]
    }
}
