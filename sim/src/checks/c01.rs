//! C01 (and, with `cost` set, C15): refinement of the real CPU against R-ISA / R-COST.
//!  * workload A: hazard-biased instruction sequences with hostile initial state and transparent
//!    stimuli, compared at every instruction boundary;
//!  * workload B: complete operand planes (65 536 value pairs, or 256 x 16 flag states) for one
//!    instruction form per run, each executed after a seeded prologue.
use crate::driver::{mix, Check, Ctx, Tier, Violation};
use crate::engine::{run_seq, shrink_seq, SeqCfg, SeqScn};
use crate::gen::{self, Prog};
use crate::isa::Class;
use crate::lockstep::{Compare, Event, LockStep, STALL_LIMIT};
use crate::prng::Rng;
use crate::sut::{Image, Setup, Stim, REGS};
use serde::{Deserialize, Serialize};
use serde_json::{json, Value};

pub struct C01 {
    /// false: C01 (architectural state, cycle counts ignored); true: C15 (cycle counts, state
    /// differences resynchronise silently)
    pub cost: bool,
}

#[derive(Clone, Debug, Serialize, Deserialize)]
pub enum PlaneKind {
    /// register-register ALU group: first byte, carry-in
    Alu { op: u8, carry: bool },
    /// one-register instruction: first byte; sweeps 256 values x 16 flag states
    Unary { op: u8 },
    /// conditional relative jump: condition code; sweeps 16 flag states x 256 offsets
    Jr { cond: u8 },
    /// two-byte group, register source and register destination: source reg, second byte
    Two { sr: u8, op2: u8 },
    /// LDSP from register under a stack size: sweeps 256 values
    Ldsp { stack: u8 },
    /// PUSH/POP/PUSHF/POPF/CALL/RET/RETI with the stack pointer swept over all 256 values
    Stack { op: u8, stack: u8 },
    /// one instruction form (first byte; for the two-byte group also the second byte, incl. PC as
    /// operand register in every mode) over 16 flag nibbles x K seeded data states
    Form { b1: u8, b2: Option<u8>, k: u32 },
}

#[derive(Clone, Debug, Serialize, Deserialize)]
pub struct PlaneScn {
    pub kind: PlaneKind,
    /// code executed before the instruction so that latches are not in their reset state
    pub prologue: Vec<u8>,
    pub regs: [u8; 8],
    pub only: Option<(u8, u8, u8)>,
}

#[derive(Clone, Debug, Serialize, Deserialize)]
pub enum Scn {
    Seq(SeqScn),
    Plane(PlaneScn),
}

const ALU_BASES: [u8; 8] = [0x60, 0x70, 0x80, 0x90, 0xA0, 0xB0, 0xC0, 0xD0];
const UN_BASES: [u8; 9] = [0x04, 0x30, 0x34, 0x38, 0x3C, 0x40, 0x44, 0x48, 0x50];
const TWO_BASES: [u8; 5] = [0x10, 0x20, 0x30, 0x50, 0x60];
const STACK_OPS: [u8; 10] = [0x10, 0x11, 0x13, 0x14, 0x16, 0x17, 0x18, 0x1C, 0x28, 0x2C];

/// the fixed list of planes (DESIGN.md C01 workload B); every tier enumerates all of them
pub fn plane_list() -> Vec<PlaneKind> {
    let mut v = vec![];
    for base in ALU_BASES {
        for ds in 0..16u8 {
            for carry in [false, true] {
                v.push(PlaneKind::Alu { op: base | ds, carry });
            }
        }
    }
    for base in UN_BASES {
        for r in 0..4u8 {
            v.push(PlaneKind::Unary { op: base | r });
        }
    }
    for cond in 0..8u8 {
        v.push(PlaneKind::Jr { cond });
    }
    for base in TWO_BASES {
        for sr in 0..3u8 {
            for d in 0..3u8 {
                v.push(PlaneKind::Two { sr, op2: base | d });
            }
        }
    }
    for sr in 0..3u8 {
        v.push(PlaneKind::Two { sr, op2: 0x44 }); // LDFR Rs
    }
    // every first byte, and every second byte of the two-byte group (undefined ones must hang)
    for b1 in 0..0xF0u16 {
        v.push(PlaneKind::Form { b1: b1 as u8, b2: None, k: 4 });
    }
    for b1 in 0xF0..=0xFFu16 {
        for b2 in 0..=255u16 {
            v.push(PlaneKind::Form { b1: b1 as u8, b2: Some(b2 as u8), k: 2 });
        }
    }
    for stack in [0u8, 16, 32, 48, 64] {
        v.push(PlaneKind::Ldsp { stack });
        for op in STACK_OPS {
            v.push(PlaneKind::Stack { op, stack });
        }
    }
    v
}

fn prologue(rng: &mut Rng) -> Vec<u8> {
    // a few register-only instructions: leaves R6/R7/ALU latch/flags in a non-reset state
    let mut p = Prog::new();
    for _ in 0..rng.below(6) {
        match rng.below(4) {
            0 => {
                p.alu(*rng.pick(&ALU_BASES), rng.below(3) as u8, rng.below(3) as u8);
            }
            1 => {
                p.un(*rng.pick(&UN_BASES), rng.below(3) as u8);
            }
            2 => {
                p.two(gen::OP2_CMP, gen::Dst::R(rng.below(3) as u8), gen::Src::Imm(rng.u8()));
            }
            _ => {
                p.alu(if rng.bool() { 0xB0 } else { 0xC0 }, rng.below(3) as u8, rng.below(3) as u8);
            }
        }
    }
    p.b
}

impl C01 {
    fn prop(&self) -> &'static str {
        if self.cost {
            "C15"
        } else {
            "C01"
        }
    }
    fn cfg(&self) -> SeqCfg {
        SeqCfg {
            prop: self.prop(),
            compare: if self.cost { Compare::Off } else { Compare::All },
            check_cost: self.cost,
            compare_board: false,
            lenient: self.cost,
        }
    }

    fn seq_cov(ls: &LockStep, ev: &Event, ctx: &mut Ctx, prev: &mut u64) {
        if let Some(info) = &ls.last {
            if *ev == Event::Boundary || *ev == Event::Halt {
                // address classes of the accesses: RAM / boundary (EE..F1) / IO
                let mut acls = 0u64;
                for a in &info.acc[..info.nacc] {
                    let c = if *a >= 0xEE && *a <= 0xF1 { 2 } else if *a <= 0xEF { 0 } else { 1 };
                    acls = acls * 3 + c + 1;
                }
                let form = mix(info.op as u64, info.op2.map(|b| b as u64 + 1).unwrap_or(0));
                ctx.cov.distinct(mix(form, acls));
                ctx.cov.set("opcode-forms", form);
                ctx.cov.set("ordered-opcode-pairs", mix(*prev, form));
                *prev = form;
                for (i, a) in info.acc[..info.nacc].iter().enumerate() {
                    if *a >= 0xEE && *a <= 0xF1 {
                        ctx.cov.probe(&format!("{}@0x{:02X}", ["fetch", "read", "write"][info.acc_kind[i] as usize % 3], a));
                    }
                }
                if info.interrupted {
                    ctx.cov.probe("interrupt-entry");
                }
                if info.class == Class::Mul || info.class == Class::Div {
                    ctx.cov.probe("mul-div-executed");
                }
                ctx.cov.extra("instructions-compared", 1);
                ctx.cov.extra("sequence-instructions", 1);
            }
        }
        if *ev == Event::Hung {
            ctx.cov.probe("undefined-opcode-reached");
        }
    }

    /// Bring a machine to the boundary right before the instruction under test.
    fn plane_base(&self, image: Vec<u8>, regs: [u8; 8], stack: u8, start_of_insn: u8, pokes: Vec<(u8, u8)>) -> Result<LockStep, Violation> {
        let setup = Setup {
            image: Image { bytes: image, stack, limit: Some(0xFF), keep_limit: false },
            regs: Some(regs),
            pokes,
            inputs: [0x5A, 0xA5, 0x3C, 0xC3],
            asm_mode: false,
        };
        let mut ls = LockStep::new(self.prop(), &setup);
        let c = self.cfg();
        ls.compare = c.compare;
        ls.check_cost = c.check_cost;
        ls.lenient = c.lenient;
        let mut guard = 0;
        loop {
            let ev = ls.tick()?;
            guard += 1;
            if ev == Event::Boundary && ls.rf.r[3] == start_of_insn {
                return Ok(ls);
            }
            if ls.ended.is_some() || guard > 20_000 {
                // prologue halted (e.g. DIV result used as something odd): fall back to no prologue
                return Err(Violation::new(self.prop(), "harness-prologue", "prologue did not reach the instruction".into()));
            }
        }
    }

    fn one_case(
        &self,
        base: &LockStep,
        sets: &[(usize, u8)],
        pokes: &[(u8, u8)],
        label: (u8, u8, u8),
        ctx: &mut Ctx,
    ) -> Result<(), Violation> {
        let mut ls = base.clone();
        for (i, v) in sets {
            ls.sut.raw_mut().registers_mut().set(REGS[*i], *v);
            match *i {
                0..=3 => ls.rf.r[*i] = *v,
                4 => ls.rf.fr = *v,
                5 => ls.rf.sp = *v,
                _ => {}
            }
        }
        for (a, v) in pokes {
            ls.sut.raw_mut().bus_mut().memory_mut()[*a as usize] = *v;
            ls.rf.ram[*a as usize] = *v;
        }
        let mut n = 0i64;
        loop {
            let e0 = ls.edge;
            let ev = ls.tick().map_err(|mut v| {
                v.detail = format!("case a=0x{:02X} b=0x{:02X} f=0x{:02X}: {}", label.0, label.1, label.2, v.detail);
                v
            })?;
            ctx.cov.sim_edges += (ls.edge - e0) as u64;
            n += 1;
            if ev != Event::None || n > STALL_LIMIT + 10 {
                break;
            }
        }
        ctx.cov.extra("instructions-compared", 1);
        Ok(())
    }

    fn exec_plane(&self, p: &PlaneScn, ctx: &mut Ctx) -> Result<(), Violation> {
        let mut regs = p.regs;
        regs[3] = 0;
        let want = |a: u8, b: u8, f: u8| p.only.map(|o| o == (a, b, f)).unwrap_or(true);
        match &p.kind {
            PlaneKind::Alu { op, carry } => {
                let d = (op & 3) as usize;
                let s = ((op >> 2) & 3) as usize;
                ctx.cov.set("planes", mix(*op as u64, *carry as u64));
                let fr = (regs[4] & 0xFE) | *carry as u8;
                if d != 3 && s != 3 {
                    let mut img = p.prologue.clone();
                    let at = img.len() as u8;
                    img.push(*op);
                    img.push(0x01);
                    regs[5] = 0xEF;
                    let base = match self.plane_base(img.clone(), regs, 0, at, vec![]) {
                        Ok(b) => b,
                        Err(v) if v.oracle == "harness-prologue" => self.plane_base(vec![*op, 0x01], regs, 0, 0, vec![])?,
                        Err(v) => return Err(v),
                    };
                    for a in 0..=255u8 {
                        for b in 0..=255u8 {
                            if d == s && a != b {
                                continue;
                            }
                            if !want(a, b, fr) {
                                continue;
                            }
                            self.one_case(&base, &[(d, a), (s, b), (4, fr)], &[], (a, b, fr), ctx)?;
                            ctx.cov.distinct(mix(mix(*op as u64, *carry as u64), (a as u64) << 8 | b as u64));
                        }
                    }
                } else {
                    // PC is an operand: its value is the address after the opcode, so the instruction
                    // is placed at every address it can be stored at (RAM 0x00..0xEF)
                    for pcv in 1..=0xF0u16 {
                        let at = (pcv - 1) as u8;
                        for other in 0..=255u8 {
                            let (a, b) = if d == 3 { (pcv as u8, other) } else { (other, pcv as u8) };
                            if d == 3 && s == 3 && other != 0 {
                                continue;
                            }
                            if !want(a, b, fr) {
                                continue;
                            }
                            let mut img = vec![0x02u8; at as usize];
                            img.push(*op);
                            let mut r = regs;
                            r[3] = at;
                            r[4] = fr;
                            r[5] = 0;
                            if d != 3 {
                                r[d] = a;
                            }
                            if s != 3 {
                                r[s] = b;
                            }
                            let setup = Setup {
                                image: Image { bytes: img, stack: 0, limit: Some(0xFF), keep_limit: false },
                                regs: Some(r),
                                pokes: vec![],
                                inputs: [0; 4],
                                asm_mode: false,
                            };
                            let mut ls = LockStep::new(self.prop(), &setup);
                            let c = self.cfg();
                            ls.compare = c.compare;
                            ls.check_cost = c.check_cost;
                            ls.lenient = c.lenient;
                            let mut seen = 0;
                            let mut n = 0;
                            while seen < 2 && n < 2 * STALL_LIMIT {
                                let ev = ls.tick().map_err(|mut v| {
                                    v.detail = format!("case a=0x{:02X} b=0x{:02X} f=0x{:02X}: {}", a, b, fr, v.detail);
                                    v
                                })?;
                                n += 1;
                                match ev {
                                    Event::Boundary => seen += 1,
                                    Event::None => {}
                                    _ => break,
                                }
                            }
                            ctx.cov.sim_edges += ls.edge as u64;
                            ctx.cov.extra("instructions-compared", 1);
                            ctx.cov.distinct(mix(mix(*op as u64, *carry as u64), (a as u64) << 8 | b as u64));
                        }
                    }
                }
            }
            PlaneKind::Unary { op } => {
                let r = (op & 3) as usize;
                ctx.cov.set("planes", mix(0x100 | *op as u64, 0));
                if r != 3 {
                    let mut img = p.prologue.clone();
                    let at = img.len() as u8;
                    img.push(*op);
                    img.push(0x01);
                    regs[5] = 0xEF;
                    let base = match self.plane_base(img, regs, 0, at, vec![]) {
                        Ok(b) => b,
                        Err(v) if v.oracle == "harness-prologue" => self.plane_base(vec![*op, 0x01], regs, 0, 0, vec![])?,
                        Err(v) => return Err(v),
                    };
                    for a in 0..=255u8 {
                        for f in 0..16u8 {
                            let fr = (regs[4] & 0xF0) | f;
                            if !want(a, 0, fr) {
                                continue;
                            }
                            self.one_case(&base, &[(r, a), (4, fr)], &[], (a, 0, fr), ctx)?;
                            ctx.cov.distinct(mix(0x100 | *op as u64, (a as u64) << 8 | fr as u64));
                        }
                    }
                } else {
                    for pcv in 1..=0xF0u16 {
                        let at = (pcv - 1) as u8;
                        for f in 0..16u8 {
                            let fr = (regs[4] & 0xF0) | f;
                            if !want(pcv as u8, 0, fr) {
                                continue;
                            }
                            let mut img = vec![0x02u8; at as usize];
                            img.push(*op);
                            let mut rr = regs;
                            rr[3] = at;
                            rr[4] = fr;
                            rr[5] = 0;
                            let setup = Setup {
                                image: Image { bytes: img, stack: 0, limit: Some(0xFF), keep_limit: false },
                                regs: Some(rr),
                                pokes: vec![],
                                inputs: [0; 4],
                                asm_mode: false,
                            };
                            let mut ls = LockStep::new(self.prop(), &setup);
                            let c = self.cfg();
                            ls.compare = c.compare;
                            ls.check_cost = c.check_cost;
                            ls.lenient = c.lenient;
                            let mut seen = 0;
                            let mut n = 0;
                            while seen < 2 && n < 100 {
                                let ev = ls.tick().map_err(|mut v| {
                                    v.detail = format!("case a=0x{:02X} b=0x00 f=0x{:02X}: {}", pcv as u8, fr, v.detail);
                                    v
                                })?;
                                n += 1;
                                match ev {
                                    Event::Boundary => seen += 1,
                                    Event::None => {}
                                    _ => break,
                                }
                            }
                            ctx.cov.sim_edges += ls.edge as u64;
                            ctx.cov.extra("instructions-compared", 1);
                            ctx.cov.distinct(mix(0x100 | *op as u64, (pcv as u64) << 8 | fr as u64));
                        }
                    }
                }
            }
            PlaneKind::Jr { cond } => {
                ctx.cov.set("planes", mix(0x200 | *cond as u64, 0));
                // instruction in the middle of RAM so that forward and backward targets exist
                let mut img = vec![0x02u8; 0x70];
                let pl = p.prologue.len().min(0x60);
                img[..pl].copy_from_slice(&p.prologue[..pl]);
                let at = 0x70u8;
                img.push(0x20 | cond);
                img.push(0);
                regs[5] = 0xEF;
                let base = match self.plane_base(img, regs, 0, at, vec![]) {
                    Ok(b) => b,
                    Err(v) if v.oracle == "harness-prologue" => {
                        let mut img = vec![0x02u8; 0x70];
                        img.push(0x20 | cond);
                        img.push(0);
                        self.plane_base(img, regs, 0, at, vec![])?
                    }
                    Err(v) => return Err(v),
                };
                for off in 0..=255u8 {
                    for f in 0..16u8 {
                        let fr = (regs[4] & 0xF0) | f;
                        if !want(off, 0, fr) {
                            continue;
                        }
                        self.one_case(&base, &[(4, fr)], &[(at + 1, off)], (off, 0, fr), ctx)?;
                        ctx.cov.distinct(mix(0x200 | *cond as u64, (off as u64) << 8 | fr as u64));
                    }
                }
            }
            PlaneKind::Two { sr, op2 } => {
                ctx.cov.set("planes", mix(0x300 | *op2 as u64, *sr as u64));
                let d = (op2 & 3) as usize;
                let s = *sr as usize;
                let mut img = p.prologue.clone();
                let at = img.len() as u8;
                img.push(0xF0 | sr);
                img.push(*op2);
                img.push(0x01);
                regs[5] = 0xEF;
                let mk = |img: Vec<u8>, at: u8| self.plane_base(img, regs, 0, at, vec![]);
                let base = match mk(img, at) {
                    Ok(b) => b,
                    Err(v) if v.oracle == "harness-prologue" => mk(vec![0xF0 | sr, *op2, 0x01], 0)?,
                    Err(v) => return Err(v),
                };
                let fr = regs[4];
                let single = *op2 == 0x44 || *op2 >> 4 == 1;
                for a in 0..=255u8 {
                    for b in 0..=255u8 {
                        if (d == s || single) && a != b {
                            continue;
                        }
                        if !want(a, b, fr) {
                            continue;
                        }
                        self.one_case(&base, &[(d, a), (s, b), (4, fr)], &[], (a, b, fr), ctx)?;
                        ctx.cov.distinct(mix(0x300 | *op2 as u64, (s as u64) << 16 | (a as u64) << 8 | b as u64));
                    }
                }
            }
            PlaneKind::Form { b1, b2, k } => {
                ctx.cov.set("opcode-forms-swept", mix(*b1 as u64, b2.map(|b| b as u64 + 1).unwrap_or(0)));
                let seed = mix(p.regs[0] as u64 | (p.regs[1] as u64) << 8 | (p.regs[2] as u64) << 16, p.regs[6] as u64 | (p.regs[7] as u64) << 8);
                for f in 0..16u8 {
                    for di in 0..*k {
                        if !want(f, di as u8, 0) {
                            continue;
                        }
                        let mut rng = Rng::new(mix(seed, (f as u64) << 32 | di as u64));
                        let setup = gen::form_case_setup(&mut rng, *b1, *b2, f);
                        let mut ls = LockStep::new(self.prop(), &setup);
                        let c = self.cfg();
                        ls.compare = c.compare;
                        ls.check_cost = c.check_cost;
                        ls.lenient = c.lenient;
                        let mut seen = 0;
                        let mut n = 0;
                        while seen < 3 && n < STALL_LIMIT + 200 {
                            let ev = ls.tick().map_err(|mut v| {
                                v.detail = format!("case a=0x{:02X} b=0x{:02X} f=0x00: {}", f, di, v.detail);
                                v
                            })?;
                            n += 1;
                            match ev {
                                Event::Boundary => seen += 1,
                                Event::None => {}
                                _ => break,
                            }
                        }
                        ctx.cov.sim_edges += ls.edge as u64;
                        ctx.cov.extra("instructions-compared", seen as u64);
                        ctx.cov.distinct(mix(mix(0x600 | *b1 as u64, b2.map(|b| b as u64 + 1).unwrap_or(0)), (f as u64) << 8 | di as u64));
                    }
                }
            }
            PlaneKind::Ldsp { stack } => {
                ctx.cov.set("planes", mix(0x400, *stack as u64));
                regs[5] = 0;
                let base = self.plane_base(vec![0xF0, 0x40, 0x02, 0x01], regs, *stack, 0, vec![])?;
                for a in 0..=255u8 {
                    let fr = regs[4];
                    if !want(a, 0, fr) {
                        continue;
                    }
                    self.one_case(&base, &[(0, a)], &[], (a, 0, fr), ctx)?;
                    ctx.cov.distinct(mix(0x400 | *stack as u64, a as u64));
                }
            }
            PlaneKind::Stack { op, stack } => {
                ctx.cov.set("planes", mix(0x500 | *op as u64, *stack as u64));
                // instruction at 0x10 (its operand byte, if any, points to 0x20); RAM filled with a pattern
                let mut img: Vec<u8> = (0..0xF0u32).map(|i| (i as u8).wrapping_mul(7).wrapping_add(3)).collect();
                for b in img.iter_mut().take(0x30) {
                    *b = 0x02;
                }
                img[0x10] = *op;
                img[0x11] = 0x20;
                regs[3] = 0x10;
                regs[5] = 0;
                let base = self.plane_base(img, regs, *stack, 0x10, vec![])?;
                for a in 0..=255u8 {
                    let fr = regs[4];
                    if !want(a, 0, fr) {
                        continue;
                    }
                    // a stack pointer the supervision already forbids cannot be the state of a
                    // running machine (C05); skip those starting points
                    if !crate::isa::sp_valid(*stack, a) {
                        continue;
                    }
                    self.one_case(&base, &[(5, a)], &[], (a, 0, fr), ctx)?;
                    ctx.cov.distinct(mix(0x500 | *op as u64, (*stack as u64) << 8 | a as u64));
                }
            }
        }
        Ok(())
    }
}

impl Check for C01 {
    type Scn = Scn;
    fn id(&self) -> &'static str {
        self.prop()
    }
    fn runs(&self, tier: Tier) -> u64 {
        let planes = plane_list().len() as u64;
        match tier {
            Tier::Quick => planes + 6_000,
            Tier::Thorough => 4 * planes + 20_000_000,
        }
    }
    fn generate(&self, rng: &mut Rng, tier: Tier, idx: u64) -> Scn {
        let planes = plane_list();
        let nplane_runs = match tier {
            Tier::Quick => planes.len() as u64,
            Tier::Thorough => 4 * planes.len() as u64,
        };
        if idx < nplane_runs {
            let kind = planes[(idx % planes.len() as u64) as usize].clone();
            let mut regs = [0u8; 8];
            for r in regs.iter_mut() {
                *r = rng.u8();
            }
            let prologue = if idx < planes.len() as u64 && rng.chance(1, 4) { vec![] } else { prologue(rng) };
            return Scn::Plane(PlaneScn { kind, prologue, regs, only: None });
        }
        let mut setup = gen::hazard_setup(rng, 40);
        if rng.chance(1, 5) {
            // a main program + interrupt routine (RETI, entry sequence, DI windows) under real key presses
            let irq = gen::IrqOpts { enable_key: true, di_windows: rng.bool(), nested_ei: rng.chance(1, 4), isr_work: rng.bool(), enable_by_store: rng.bool(), mask_windows: false, mid_stop: false, isr_ei_first: false };
            let o = gen::HazardOpts { len: 6 + rng.usize(30), wild: false, run_into_io: false, with_ei: true, irq: Some(irq) };
            setup.image.bytes = gen::hazard_program(rng, o);
            setup.image.stack = *rng.pick(&[0u8, 32, 64]);
            if let Some(r) = setup.regs.as_mut() {
                r[5] = gen::valid_sp(rng, setup.image.stack);
            }
        }
        let max_edges = 3_000 + rng.below(5_000) as u32;
        // transparent stimuli only (DESIGN.md C01): MODE toggles, CONTINUE while running, masked key presses,
        // boundary-aligned input changes
        let mut events: Vec<(u32, Stim)> = vec![];
        let nev = if rng.chance(1, 3) { 0 } else { rng.below(6) };
        let uses_key = setup.image.bytes.windows(4).any(|w| w == [0xFB, 0x01, 0x5F, 0xF9]) || setup.image.bytes.windows(3).any(|w| w == [0xF0, 0x1F, 0xF9]);
        for _ in 0..nev {
            let t = rng.below(max_edges as u64 / 4) as u32;
            let s = match rng.below(9) {
                0 => Stim::Continue,
                // masked when the program never enables the key; a real interrupt (entry sequence,
                // its pushes and its cycle cost) when it does
                1 | 7 if uses_key || rng.bool() => Stim::KeyInt,
                1 => Stim::Continue,
                2 => Stim::Mode(true),
                3 => Stim::Mode(false),
                4 => Stim::InReg(rng.below(4) as u8, rng.u8()),
                5 => Stim::Di(rng.u8()),
                6 => Stim::Flip(rng.below(0xF0) as u8, rng.below(8) as u8),
                _ => Stim::BusWrite(gen::DATA_LO + rng.below(40) as u8, rng.u8()),
            };
            events.push((t, s));
        }
        if rng.chance(1, 3) {
            // CONTINUE some time after the program's STOP: the machine runs on into whatever follows
            events.push((300 + rng.below(2_000) as u32, Stim::Continue));
        }
        events.sort_by_key(|e| e.0);
        // every Mode(true) is followed by a Mode(false) a little later so that most of the run is edge-accurate
        let mut extra = vec![];
        for (t, s) in &events {
            if *s == Stim::Mode(true) {
                extra.push((t + 1 + rng.below(30) as u32, Stim::Mode(false)));
            }
        }
        events.extend(extra);
        events.sort_by_key(|e| e.0);
        Scn::Seq(SeqScn { setup, events, max_edges })
    }
    fn execute(&self, scn: &Scn, ctx: &mut Ctx) -> Result<(), Violation> {
        match scn {
            Scn::Seq(s) => {
                let mut prev = 0u64;
                let ls = run_seq(s, self.cfg(), ctx, |ls, ev, ctx| Self::seq_cov(ls, ev, ctx, &mut prev))?;
                ctx.cov.extra("sequence-runs", 1);
                ctx.cov.extra(
                    match (ls.ended, ls.sut.state()) {
                        (Some(crate::lockstep::Ended::Hung), _) => "sequence-end:undefined-opcode",
                        (_, emulator_2a_lib::machine::State::Stopped) => "sequence-end:stop",
                        (_, emulator_2a_lib::machine::State::ErrorStopped) => "sequence-end:error-stop",
                        _ => "sequence-end:edge-budget",
                    },
                    1,
                );
                ctx.cov.extra("resynchronisations(unspecified)", ls.unspec_count);
                Ok(())
            }
            Scn::Plane(p) => {
                ctx.cov.extra("plane-runs", 1);
                self.exec_plane(p, ctx)
            }
        }
    }
    fn shrink(&self, scn: &Scn, v: &Violation) -> Vec<Scn> {
        match scn {
            Scn::Seq(s) => shrink_seq(s, v).into_iter().map(Scn::Seq).collect(),
            Scn::Plane(p) => {
                let mut out = vec![];
                if p.only.is_none() {
                    // "case a=0x.. b=0x.. f=0x..:"
                    let grab = |key: &str| -> Option<u8> {
                        let i = v.detail.find(key)?;
                        u8::from_str_radix(&v.detail[i + key.len()..i + key.len() + 2], 16).ok()
                    };
                    if let (Some(a), Some(b), Some(f)) = (grab("a=0x"), grab("b=0x"), grab("f=0x")) {
                        let mut c = p.clone();
                        c.only = Some((a, b, f));
                        out.push(Scn::Plane(c));
                    }
                }
                if !p.prologue.is_empty() {
                    let mut c = p.clone();
                    c.prologue.clear();
                    out.push(Scn::Plane(c));
                    for i in 0..p.prologue.len() {
                        let mut c = p.clone();
                        c.prologue.remove(i);
                        out.push(Scn::Plane(c));
                    }
                }
                for i in 0..8 {
                    if p.regs[i] != 0 {
                        let mut c = p.clone();
                        c.regs[i] = 0;
                        out.push(Scn::Plane(c));
                    }
                }
                out
            }
        }
    }
    fn rule(&self) -> String {
        if self.cost {
            "Planes: every operand plane of plane_list() (all ALU first bytes x carry-in over 65 536 value pairs, unary x 256 x 16 flags, JR x flags x offsets, register forms of the two-byte group, stack instructions x every SP x 5 stack sizes) plus seeded hazard-biased instruction sequences; each instruction's edge count between boundaries is compared with R-COST. distinct = distinct (instruction form, operand values) cases in planes plus distinct (opcode, second opcode, address-class vector of its bus accesses) in sequences; a case is non-trivial because it executes a complete instruction on the real machine.".into()
        } else {
            "Planes: every operand plane of plane_list() executed after a seeded prologue and hostile scratch/flag state; sequences: seeded hazard-biased programs (20-400 instruction templates over the full emittable set, self-modifying stores, PC running into I/O, hostile R0-R7/FR/SP/RAM/inputs) with transparent stimuli, compared with R-ISA at every instruction boundary. distinct = distinct (instruction form, operand values) cases in planes plus distinct (opcode, second opcode, address-class vector of its bus accesses) in sequences.".into()
        }
    }
    fn assumptions(&self) -> Vec<String> {
        vec![
            "R-ISA (sim/src/isa.rs) is the oracle: rules marked P come from the property text, D from repository documentation, G are golden (calibrated on the pinned tree, see DESIGN.md Appendix A)".into(),
            "R6/R7 and (for C01) cycle counts are not compared; undefined encodings resynchronise instead of comparing".into(),
            "bits of 0xF1/0xF3 no property specifies and reads of 0xF4-0xFB take the SUT's value".into(),
        ]
    }
    fn components(&self) -> Value {
        json!({
            "control store, sequencer, ALU, registers, bus, board, Machine": "real (emulator-2a-lib from /repo working tree)",
            "parser, translator": "not used (RAM images come from the harness's encoder)",
            "reference model R-ISA/R-COST, scheduler, PRNG": "harness",
        })
    }
    fn sample(&self, scn: &Scn) -> Value {
        match scn {
            Scn::Seq(s) => json!({
                "kind": "sequence",
                "image_len": s.setup.image.bytes.len(),
                "image_head": s.setup.image.bytes.iter().take(24).map(|b| format!("{:02X}", b)).collect::<Vec<_>>().join(" "),
                "stack": s.setup.image.stack, "limit": s.setup.image.limit,
                "regs": s.setup.regs, "events": s.events, "max_edges": s.max_edges,
            }),
            Scn::Plane(p) => json!({"kind": "plane", "plane": p.kind, "prologue": p.prologue, "regs": p.regs}),
        }
    }
    fn must_fire(&self, _tier: Tier) -> Vec<String> {
        ["mul-div-executed", "fetch@0xEF", "read@0xEF", "write@0xEF", "read@0xF0", "write@0xF0", "read@0xEE", "write@0xEE", "interrupt-entry"].iter().map(|s| s.to_string()).collect()
    }
    fn exhaustive_dims(&self, _tier: Tier) -> Vec<String> {
        vec![
            "operand values of each listed plane (65 536 pairs / 256 x 16 flags / 256 SP values); for planes with PC as operand the PC value ranges over the 240 RAM addresses the instruction can be stored at".into(),
        ]
    }
}
