//! C14: the MR2DA2 board's status always reflects its inputs, DACs and configuration.
//! Two-party history: program-side port writes (through running code and through direct bus calls)
//! interleaved with environment-side input changes (arbitrary f32 bit patterns), compared with
//! R-BOARD after every single operation.
use crate::boardref::{clamp_voltage, dac_voltage, BoardRef, DAISR_SPEC_MASK, DASR_COMP1, DASR_COMP2, DASR_SPEC_MASK};
use crate::checks::c13::random_f32_bits;
use crate::driver::{mix, Check, Ctx, Tier, Violation};
use crate::lockstep::ref_apply_env;
use crate::isa::Ref;
use crate::prng::Rng;
use crate::sut::{f32_class, Setup, Stim};
use emulator_2a_lib::machine::{Machine, State};
use serde::{Deserialize, Serialize};
use serde_json::{json, Value};

pub struct C14;

#[derive(Clone, Debug, PartialEq, Serialize, Deserialize)]
pub enum Op {
    /// environment side or direct bus call
    S(Stim),
    /// a program stores `v` to the port: LD R0,#v ; ST (addr),R0 ; STOP
    ProgWrite(u8, u8),
    /// a program loads from the port: LD R0,(addr) ; STOP
    ProgRead(u8),
    /// CPU reset, `micr` written to the interrupt-enable mask 0xF9, then `n` clock edges of an idle
    /// loop (with `ie`: behind an EI): the board status must not move without an input or port event
    Idle { micr: u8, n: u8, ie: bool },
}

#[derive(Clone, Debug, Serialize, Deserialize)]
pub enum Scn {
    History(Vec<Op>),
    /// clamping rule over a slice of the 2^32 bit patterns: setter 0..2, first pattern, count, stride
    Clamp { setter: u8, start: u32, count: u32, stride: u32 },
}

fn v(oracle: &str, i: usize, d: String) -> Violation {
    Violation::new("C14", oracle, format!("op#={} {}", i, d))
}

fn feq(a: f32, b: f32) -> bool {
    a == b || (a - b).abs() <= 1e-6
}

pub fn board_diff(m: &Machine, rb: &BoardRef) -> Option<String> {
    let b = m.bus().board();
    if !(*b.temp() == rb.temp) {
        return Some(format!("stored temperature voltage {} (model {})", b.temp(), rb.temp));
    }
    for i in 0..2 {
        if !(b.analog_inputs()[i] == rb.ai[i]) {
            return Some(format!("stored analog input {} voltage {} (model {})", i + 1, b.analog_inputs()[i], rb.ai[i]));
        }
    }
    let dos = [*b.digital_output1(), *b.digital_output2()];
    if dos != [rb.do1, rb.do2] {
        return Some(format!("output ports {:02X?} (model {:02X?})", dos, [rb.do1, rb.do2]));
    }
    for i in 0..2 {
        if !feq(b.analog_outputs()[i], dac_voltage(dos[i])) {
            return Some(format!("DAC {} voltage {} for byte {} (byte/100 = {})", i + 1, b.analog_outputs()[i], dos[i], dac_voltage(dos[i])));
        }
    }
    if *b.digital_input1() != rb.di1 {
        return Some(format!("digital input port 0x{:02X} (model 0x{:02X})", b.digital_input1(), rb.di1));
    }
    let (sd, md) = (b.dasr().bits() & DASR_SPEC_MASK, rb.dasr() & DASR_SPEC_MASK);
    if sd != md {
        return Some(format!("status register DASR 0x{:02X} (model 0x{:02X}; J2 J1 - CP2 CP1 UIO3..1)", sd, md));
    }
    let (ss, ms) = (b.daisr().bits() & DAISR_SPEC_MASK, rb.daisr() & DAISR_SPEC_MASK);
    if ss != ms {
        return Some(format!("interrupt status (flip-flop, source flag) 0b{:02b} (model 0b{:02b})", ss, ms));
    }
    if *b.uio_dir() != rb.uio_out {
        return Some(format!("UIO directions {:?} (model {:?})", b.uio_dir(), rb.uio_out));
    }
    // what the program sees on the bus
    if m.bus().read(0xF0) != rb.di1 {
        return Some(format!("read(0xF0) = 0x{:02X}, digital input port is 0x{:02X}", m.bus().read(0xF0), rb.di1));
    }
    if m.bus().read(0xF1) & DASR_SPEC_MASK != md {
        return Some(format!("read(0xF1) = 0x{:02X} (model 0x{:02X})", m.bus().read(0xF1), md));
    }
    if m.bus().read(0xF3) & DAISR_SPEC_MASK != ms {
        return Some(format!("read(0xF3) = 0x{:02X} (model 0x{:02X})", m.bus().read(0xF3), ms));
    }
    let fp = m.bus().read(0xF2);
    if !rb.fan_period_ok(fp) {
        return Some(format!("fan period register read(0xF2) = {} for DAC byte {} (law 255 - 255*V/2.55V gives {})", fp, rb.do1, rb.fan_period()));
    }
    None
}

fn prog_run(m: &mut Machine, code: &[u8]) -> bool {
    m.cpu_reset();
    for (i, b) in code.iter().enumerate() {
        m.raw_mut().bus_mut().memory_mut()[i] = *b;
    }
    for _ in 0..200 {
        m.trigger_key_clock();
        if m.state() != State::Running {
            break;
        }
    }
    m.state() == State::Stopped
}

fn cause_of(op: &Op) -> &'static str {
    match op {
        Op::S(Stim::Jumper(..)) | Op::S(Stim::Uio(..)) => "pin",
        Op::S(Stim::Volt(..)) => "voltage",
        Op::S(Stim::BusWrite(0xF0, _)) | Op::S(Stim::BusWrite(0xF1, _)) | Op::ProgWrite(0xF0, _) | Op::ProgWrite(0xF1, _) => "dac-write",
        _ => "other",
    }
}

fn run_history(ops: &[Op], ctx: &mut Ctx) -> Result<(), Violation> {
    let mut m = Setup::plain(vec![], 0, Some(0xFF)).build();
    let mut rf = Ref::power_on();
    rf.board_reads_from_hint = false;
    if let Some(d) = board_diff(&m, &rf.board) {
        return Err(v("board-status", 0, format!("fresh board: {}", d)));
    }
    for (i, op) in ops.iter().enumerate() {
        let ff_before = rf.board.int_ff;
        let board_before = rf.board.clone();
        match op {
            Op::Idle { micr, n, ie } => {
                m.cpu_reset();
                // JR MAIN ; ISR: RETI ; NOP ; MAIN: LDSP 0xEF ; [EI] ; L: JR L
                let mut p = crate::gen::Prog::new();
                p.byte(0x20).byte(0x02);
                p.reti();
                p.nop();
                p.ldsp(crate::gen::Src::Imm(0xEF));
                if *ie {
                    p.ei();
                }
                let l = p.here();
                p.jr_to(0, l);
                let code = p.b;
                for (k, b) in code.iter().enumerate() {
                    m.raw_mut().bus_mut().memory_mut()[k] = *b;
                }
                m.raw_mut().bus_mut().write(0xF9, *micr);
                for _ in 0..*n {
                    m.trigger_key_clock();
                }
                ctx.cov.fault("IDLE-CLOCK-EDGES");
                if m.state() != State::Running {
                    return Err(v("harness", i, "idle loop halted".into()));
                }
            }
            Op::S(Stim::MasterReset) => {
                m.master_reset();
                rf.board.master_reset();
                // comparator bits after a master reset are not pinned by any statement (the DACs are
                // cleared, whether the comparators are re-evaluated is open): read them from the tree
                let d = m.bus().board().dasr().bits();
                rf.board.comp = [d & DASR_COMP1 != 0, d & DASR_COMP2 != 0];
                ctx.cov.fault("RST-MASTER");
            }
            Op::S(Stim::CpuReset) => {
                m.cpu_reset();
                ctx.cov.fault("RST-CPU");
            }
            Op::S(s) => {
                s.apply(&mut m);
                ref_apply_env(&mut rf, s);
                ctx.cov.fault(s.kind());
                if let Stim::Volt(w, bits) = s {
                    ctx.cov.set("setter-x-f32-class", mix(*w as u64, f32_class(*bits).as_bytes().iter().fold(0u64, |h, b| h.wrapping_mul(131).wrapping_add(*b as u64))));
                }
            }
            Op::ProgWrite(a, val) => {
                if !prog_run(&mut m, &[0xFB, *val, 0x10, 0xF0, 0x1F, *a, 0x01]) {
                    return Err(v("harness", i, "helper program did not stop".into()));
                }
                rf.board.write(*a, *val);
                ctx.cov.fault("PROGRAM-PORT-WRITE");
            }
            Op::ProgRead(a) => {
                if !prog_run(&mut m, &[0xFF, *a, 0x10, 0x01]) {
                    return Err(v("harness", i, "helper program did not stop".into()));
                }
                ctx.cov.fault("PROGRAM-PORT-READ");
                let got = m.registers().content()[0];
                let want = match a {
                    0xF0 => Some((rf.board.di1, 0xFF)),
                    0xF1 => Some((rf.board.dasr(), DASR_SPEC_MASK)),
                    0xF3 => Some((rf.board.daisr(), DAISR_SPEC_MASK)),
                    _ => None,
                };
                if let Some((w, mask)) = want {
                    if got & mask != w & mask {
                        return Err(v("program-read", i, format!("program read 0x{:02X} from port 0x{:02X}, model says 0x{:02X} (mask 0x{:02X})", got, a, w, mask)));
                    }
                }
                if *a == 0xF2 && !rf.board.fan_period_ok(got) {
                    return Err(v("fan-period", i, format!("program read fan period {} for DAC byte {} (law gives {})", got, rf.board.do1, rf.board.fan_period())));
                }
            }
        }
        // bits no statement pins (see BoardRef::adopt_after_write)
        let written = match op {
            Op::S(Stim::BusWrite(a, val)) | Op::ProgWrite(a, val) => Some((*a, *val)),
            _ => None,
        };
        if let Some((a, val)) = written {
            let b = m.bus().board();
            rf.board.adopt_after_write(a, val, &board_before, b.dasr().bits(), b.daisr().bits());
        }
        ctx.cov.extra("operations", 1);
        // reach: source x polarity x cause x raised?
        let raised = !ff_before && rf.board.int_ff;
        let cause = cause_of(op);
        if cause != "other" {
            ctx.cov.distinct(mix(mix(rf.board.icr as u64 & 0x0F, raised as u64), cause.len() as u64));
            if raised {
                ctx.cov.probe(&format!("interrupt-raised-by:{}", cause));
            }
        }
        if let Some(d) = board_diff(&m, &rf.board) {
            let oracle = if d.starts_with("fan period") { "fan-period" } else if d.contains("interrupt status") || d.contains("read(0xF3)") { "interrupt-flags" } else { "board-status" };
            return Err(v(oracle, i, format!("after {:?}: {}", op, d)));
        }
        ctx.tr(mix(i as u64, m.bus().read(0xF1) as u64));
    }
    Ok(())
}

fn run_clamp(setter: u8, start: u32, count: u32, stride: u32, ctx: &mut Ctx) -> Result<(), Violation> {
    let mut m = Setup::plain(vec![], 0, Some(0xFF)).build();
    // a DAC value in the middle so that the comparator moves in both directions
    m.raw_mut().bus_mut().write(0xF0, 120);
    m.raw_mut().bus_mut().write(0xF1, 120);
    let mut bits = start;
    for k in 0..count {
        let f = f32::from_bits(bits);
        let s = Stim::Volt(setter, bits);
        s.apply(&mut m);
        let want = clamp_voltage(f);
        let b = m.bus().board();
        let got = match setter {
            0 => *b.temp(),
            1 => b.analog_inputs()[0],
            _ => b.analog_inputs()[1],
        };
        if !(got == want) {
            return Err(v("clamp", k as usize, format!("setter {} with bit pattern 0x{:08X} ({:e}) stored {} instead of {}", setter, bits, f, got, want)));
        }
        let comp_bit = if setter == 1 { 0x08 } else { 0x10 };
        let comp = b.dasr().bits() & comp_bit != 0;
        if comp != (want > 1.2) {
            return Err(v("comparator", k as usize, format!("setter {} with bit pattern 0x{:08X}: stored {} V against DAC 1.20 V but comparator bit is {}", setter, bits, got, comp)));
        }
        bits = bits.wrapping_add(stride);
    }
    ctx.cov.extra("clamp-patterns", count as u64);
    ctx.cov.fault_n("VOLT", count as u64);
    ctx.cov.distinct(mix(setter as u64, start as u64));
    Ok(())
}

fn grid_voltage(rng: &mut Rng) -> u32 {
    // exactly on, one ulp above and one ulp below a DAC step; clamp edges; else arbitrary
    match rng.below(10) {
        0..=4 => {
            let k = rng.below(256) as u8;
            let f = dac_voltage(k);
            let b = f.to_bits();
            match rng.below(3) {
                0 => b,
                1 => b + 1,
                _ => b.saturating_sub(1),
            }
        }
        5 => *rng.pick(&[(-0.0f32).to_bits(), 0f32.to_bits(), 5f32.to_bits(), 5f32.to_bits() + 1, 6f32.to_bits(), 1e30f32.to_bits(), f32::INFINITY.to_bits(), f32::NEG_INFINITY.to_bits(), f32::NAN.to_bits(), 2.55f32.to_bits(), 2.56f32.to_bits()]),
        6 | 7 => (rng.below(520) as f32 / 100.0).to_bits(),
        _ => random_f32_bits(rng),
    }
}

fn random_op(rng: &mut Rng) -> Op {
    let port_write = |rng: &mut Rng| -> (u8, u8) {
        match rng.below(10) {
            0..=2 => (0xF0, rng.u8()),
            3..=4 => (0xF1, rng.u8()),
            5 => (0xF2, 0xC0 | (rng.u8() & 0x3F)), // ICR: every source x polarity
            6 => (0xF2, 0x80 | (rng.u8() & 0x07)), // UDR
            7 => (0xF2, rng.u8() & 0x07),          // UOR
            8 => (0xF2, rng.u8()),
            _ => (0xF3, rng.u8()),
        }
    };
    match rng.below(20) {
        0..=4 => {
            let (a, val) = port_write(rng);
            Op::S(Stim::BusWrite(a, val))
        }
        5 | 6 => {
            let (a, val) = port_write(rng);
            Op::ProgWrite(a, val)
        }
        7 => match rng.below(4) {
            0 => Op::Idle { micr: if rng.bool() { rng.u8() } else { 1 << rng.below(6) }, n: 1 + rng.below(40) as u8, ie: rng.bool() },
            1 => Op::S(if rng.chance(2, 3) { Stim::MasterReset } else { Stim::CpuReset }),
            _ => Op::ProgRead(0xF0 + rng.below(4) as u8),
        },
        8 => Op::S(Stim::BusRead(0xF0 + rng.below(4) as u8)),
        9..=12 => Op::S(Stim::Volt(rng.below(3) as u8, grid_voltage(rng))),
        13 | 14 => Op::S(Stim::Jumper(1 + rng.below(2) as u8, rng.bool())),
        15..=17 => Op::S(Stim::Uio(1 + rng.below(3) as u8, rng.bool())),
        _ => Op::S(Stim::Di(rng.u8())),
    }
}

const QUICK_CLAMP: u64 = 3 * 16;
const FULL_CLAMP: u64 = 3 * 1024;

impl Check for C14 {
    type Scn = Scn;
    fn id(&self) -> &'static str {
        "C14"
    }
    fn runs(&self, tier: Tier) -> u64 {
        match tier {
            Tier::Quick => QUICK_CLAMP + 150_000,
            Tier::Thorough => FULL_CLAMP + 60_000_000,
        }
    }
    fn generate(&self, rng: &mut Rng, tier: Tier, idx: u64) -> Scn {
        match tier {
            Tier::Quick if idx < QUICK_CLAMP => {
                // 16 seeded strided slices per setter, 65 536 patterns each
                return Scn::Clamp { setter: (idx % 3) as u8, start: rng.u32(), count: 65_536, stride: 65_521 };
            }
            Tier::Thorough if idx < FULL_CLAMP => {
                // all 2^32 bit patterns per setter, in 1024 consecutive slices
                let chunk = (idx / 3) as u32;
                return Scn::Clamp { setter: (idx % 3) as u8, start: chunk << 22, count: 1 << 22, stride: 1 };
            }
            _ => {}
        }
        let n = 5 + rng.usize(76);
        // swarm: bias some histories to one interrupt source
        let mut ops: Vec<Op> = vec![];
        if rng.chance(2, 3) {
            let src = rng.below(8) as u8;
            let falling = rng.bool();
            ops.push(Op::S(Stim::BusWrite(0xF2, 0xC0 | 0x20 | ((falling as u8) << 3) | src)));
        }
        for _ in 0..n {
            ops.push(random_op(rng));
        }
        Scn::History(ops)
    }
    fn execute(&self, scn: &Scn, ctx: &mut Ctx) -> Result<(), Violation> {
        match scn {
            Scn::History(ops) => run_history(ops, ctx),
            Scn::Clamp { setter, start, count, stride } => run_clamp(*setter, *start, *count, *stride, ctx),
        }
    }
    fn shrink(&self, scn: &Scn, v: &Violation) -> Vec<Scn> {
        let mut out = vec![];
        match scn {
            Scn::History(ops) => {
                // stop after the failing operation
                if let Some(i) = v.detail.strip_prefix("op#=").and_then(|s| s.split(' ').next()).and_then(|s| s.parse::<usize>().ok()) {
                    if i + 1 < ops.len() {
                        out.push(Scn::History(ops[..=i].to_vec()));
                    }
                }
                let n = ops.len();
                if n > 2 {
                    out.push(Scn::History(ops[n / 2..].to_vec()));
                }
                for i in 0..n {
                    let mut c = ops.clone();
                    c.remove(i);
                    out.push(Scn::History(c));
                }
                // simplify values
                for i in 0..n {
                    match &ops[i] {
                        Op::S(Stim::Volt(w, b)) if *b != 6.0f32.to_bits() && *b != 0 => {
                            for nb in [0f32.to_bits(), 5f32.to_bits(), 6f32.to_bits()] {
                                let mut c = ops.clone();
                                c[i] = Op::S(Stim::Volt(*w, nb));
                                out.push(Scn::History(c));
                            }
                        }
                        Op::ProgWrite(a, val) => {
                            let mut c = ops.clone();
                            c[i] = Op::S(Stim::BusWrite(*a, *val));
                            out.push(Scn::History(c));
                        }
                        Op::S(Stim::BusWrite(a, val)) if *val != 1 && *a != 0xF2 => {
                            let mut c = ops.clone();
                            c[i] = Op::S(Stim::BusWrite(*a, 1));
                            out.push(Scn::History(c));
                        }
                        _ => {}
                    }
                }
            }
            Scn::Clamp { setter, start, count, stride } => {
                if *count > 1 {
                    if let Some(i) = v.detail.strip_prefix("op#=").and_then(|s| s.split(' ').next()).and_then(|s| s.parse::<u32>().ok()) {
                        out.push(Scn::Clamp { setter: *setter, start: start.wrapping_add(stride.wrapping_mul(i)), count: 1, stride: *stride });
                    }
                }
            }
        }
        out
    }
    fn rule(&self) -> String {
        "Histories of 5-80 operations: writes to 0xF0-0xF3 with every byte value (ICR writes selecting each of the 8 sources x rising/falling, UDR, UOR, 0xF3 clears) issued by direct bus calls and by running helper programs, program reads of 0xF0-0xF3, idle clock edges with arbitrary interrupt-enable masks (0xF9) with and without IE, CPU and master resets, and environment setters (jumpers, UIO pins, digital input, voltages drawn from DAC grid points exactly on / one ulp above / one ulp below each step, clamp edges, non-finite values and raw bit patterns); the whole board status is compared with R-BOARD after every operation. Clamping rule: strided slices (quick) or all 2^32 bit patterns (thorough) through each of the three voltage setters. distinct = distinct (interrupt source + polarity, raised?, cause class) combinations plus clamp slices.".into()
    }
    fn assumptions(&self) -> Vec<String> {
        vec![
            "R-BOARD (sim/src/boardref.rs) is written from the C14 statement; DASR.FAN and DAISR bits 2-7 are masked; the effect of a UOR write on the status bits of input-configured pins and the never-cleared source flag are mirrored de facto".into(),
            "fan period register: 255 - DAC byte within +-1 LSB (tolerance for the documented rpm quantisation)".into(),
            "resets inside C14 histories: a master reset clears both output ports, the interrupt control register and the UIO directions in R-BOARD; the comparator bits right after it are read from the tree (not pinned by any statement), everything afterwards is determined again".into(),
        ]
    }
    fn components(&self) -> Value {
        json!({"Board, Bus address decoder, Machine setters, CPU (for program-side port accesses)": "real", "R-BOARD, scheduler, PRNG": "harness"})
    }
    fn must_fire(&self, _tier: Tier) -> Vec<String> {
        ["interrupt-raised-by:pin", "interrupt-raised-by:voltage", "interrupt-raised-by:dac-write", "PROGRAM-PORT-WRITE", "PROGRAM-PORT-READ", "VOLT", "PIN-UIO", "PIN-JUMPER"].iter().map(|s| s.to_string()).collect()
    }
    fn exhaustive_dims(&self, tier: Tier) -> Vec<String> {
        match tier {
            Tier::Thorough => vec!["all 2^32 f32 bit patterns through each of set_temp / set_analog_input1 / set_analog_input2 (clamping rule and comparator)".into()],
            Tier::Quick => vec![],
        }
    }
}
