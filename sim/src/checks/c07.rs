//! C07: CPU reset, master reset and program load restore exactly the documented state.
//! Crash/restart with RAM (and the board's physical inputs) as the durable state: a seeded history
//! is executed on the real machine and EVERY prefix of it is followed, on a clone, by each kind of
//! reset - after every operation and at every edge inside clock bursts (mid-instruction, between a
//! RAM write and its wait, inside the interrupt entry, with the key flip-flop set).
//! Oracles are model-free: getters, "untouched" comparisons against the pre-reset clone, full
//! `==` against a machine constructed from `Machine::new` through public setters only (covers
//! every private field), and cycle-for-cycle comparison of a reloaded machine with a new one.
use crate::checks::c13::random_f32_bits;
use crate::driver::{mix, Check, Ctx, Tier, Violation};
use crate::gen::{self, HazardOpts, IrqOpts, Prog};
use crate::lockstep::class_of;
use crate::prng::Rng;
use crate::sut::{state_name, Image, Stim};
use emulator_2a_lib::machine::{Machine, MachineConfig, State, StepMode};
use emulator_2a_lib::parser::{Programsize, Stacksize};
use serde::{Deserialize, Serialize};
use serde_json::{json, Value};

pub struct C07;

/// finite voltages only: machines are compared with ==, and NaN != NaN (non-finite inputs are C13/C14's workload)
fn finite_bits(rng: &mut Rng) -> u32 {
    loop {
        let b = random_f32_bits(rng);
        if f32::from_bits(b).is_finite() {
            return b;
        }
    }
}

#[derive(Clone, Debug, PartialEq, Serialize, Deserialize)]
pub enum Op {
    Load(Image),
    /// n calls of trigger_key_clock in the given step mode (true = Assembly)
    Clock(u32, bool),
    S(Stim),
}

#[derive(Clone, Debug, Serialize, Deserialize)]
pub struct Scn {
    pub ops: Vec<Op>,
    /// follow-up program loaded by the RELOAD fault (uses only RAM and the FC-FF registers)
    pub follow: Image,
    pub follow_inputs: [u8; 4],
    /// restrict the reset points: (operation index, tick inside a Clock burst or u32::MAX for "after the op")
    pub only: Option<(u32, u32)>,
    /// second scenario kind: a lock-step run (real machine next to R-ISA) with resets and reloads
    /// injected at arbitrary clock edges: torn-instruction oracle (every RAM byte holds the value
    /// from before or after the instruction in flight), reset state against the reference, and
    /// the cycle cost of the instructions after the reset (a stale wait flag or micro-address
    /// shows up as an extra or missing edge)
    #[serde(default)]
    pub lockstep: Option<crate::engine::SeqScn>,
    /// the history's machine is created with Machine::new from this configuration (input registers,
    /// digital input, jumper 1) instead of the default one
    #[serde(default)]
    pub init: Option<[u8; 6]>,
    /// third scenario kind: complete value plane of the registers a CPU reset must clear and that
    /// have no getter (see [`Plane`])
    #[serde(default)]
    pub plane: Option<Plane>,
}

/// Register-value plane: on a machine with a seeded remainder (output registers, input registers,
/// RAM bytes, key press, write order) the byte `fa` is written to 0xFA (UART data), and then EVERY
/// pair (fb, f9) of bytes is written to 0xFB (UART control) and 0xF9 (interrupt mask): 65 536
/// machines, each hit with cpu_reset and master_reset and compared (getters + full equality with
/// the constructed machine). The 256 values of `fa` are spread over the scenarios of a run, so one
/// quick run covers all 2^24 value triples of the three registers.
#[derive(Clone, Debug, Serialize, Deserialize)]
pub struct Plane {
    pub fa: u8,
    pub out: [u8; 2],
    pub inputs: [u8; 4],
    pub ram: Vec<(u8, u8)>,
    /// key press after the writes (pending or dropped, depending on bit 0 of f9)
    pub key: bool,
    /// 0xF9 before 0xFB instead of after
    pub mask_first: bool,
    /// write 0xFA last instead of first
    pub fa_last: bool,
    /// restrict the sweep to one (fb, f9) pair (set by the shrinker)
    pub only: Option<(u8, u8)>,
}

fn v(oracle: &str, at: (usize, u32), d: String) -> Violation {
    let tick = if at.1 == u32::MAX { "end".to_string() } else { at.1.to_string() };
    Violation::new("C07", oracle, format!("op#={} tick={} {}", at.0, tick, d))
}

/// what the harness knows about bus state that has no getter
#[derive(Clone, Default)]
struct Known {
    /// direct writes to 0xFC / 0xFD since the last master reset, in order
    timer_writes: Vec<(u8, u8)>,
    /// last direct write to 0xFA ever
    uart: Option<u8>,
    /// a running program wrote to 0xFC/0xFD (timer) resp. 0xFA (UART): value unknown to the harness
    timer_tainted: bool,
    uart_tainted: bool,
    /// a master reset / load has happened since the last UART write: whether it kept or cleared the
    /// UART data byte is pinned by no statement, both are accepted from then on
    uart_either: bool,
}

/// the expectations that are all acceptable for the registers without a getter
fn candidates(known: &Known, master: bool) -> Vec<Known> {
    let mut v = vec![known.clone()];
    if known.uart.is_some() && (master || known.uart_either) {
        let mut k = known.clone();
        k.uart = None;
        v.push(k);
    }
    v
}

/// did the control word just executed write to the UART / timer registers?
fn observe_port_write(m: &Machine, known: &mut Known) {
    let s = m.signals();
    if s.buswr() {
        match *m.registers().get(s.selected_register_a()) {
            0xFA => known.uart_tainted = true,
            0xFC | 0xFD => known.timer_tainted = true,
            _ => {}
        }
    }
}

fn construct(pre: &Machine, master: bool, known: &Known) -> Option<Machine> {
    if known.uart_tainted || (!master && known.timer_tainted) {
        return None;
    }
    let mut e = Machine::new(MachineConfig::default());
    e.raw_mut().set_stacksize(pre.stacksize());
    e.raw_mut().set_programsize(pre.programsize());
    e.set_step_mode(pre.step_mode());
    *e.raw_mut().bus_mut().memory_mut() = *pre.bus().memory();
    // the interrupt status register is not reset by anything but a RETI: reproduce it with presses
    match pre.bus().read(0xF9) {
        0x00 => {}
        0x01 => { let _ = e.trigger_key_interrupt(); }
        0x11 => {
            e.raw_mut().bus_mut().write(0xF9, 1);
            e.trigger_key_interrupt();
        }
        _ => return None,
    }
    if let Some(u) = known.uart {
        e.raw_mut().bus_mut().write(0xFA, u);
    }
    e.cpu_reset();
    if !master {
        // timer settings survive a CPU reset: they are programmed *after* the constructed machine's
        // own reset, so that the expectation does not depend on what cpu_reset does to the timer
        for (a, val) in &known.timer_writes {
            e.raw_mut().bus_mut().write(*a, *val);
        }
        e.set_input_fc(pre.bus().read(0xFC));
        e.set_input_fd(pre.bus().read(0xFD));
        e.set_input_fe(pre.bus().read(0xFE));
        e.set_input_ff(pre.bus().read(0xFF));
    }
    let mut b = pre.bus().board().clone();
    if master {
        b.master_reset();
    }
    *e.raw_mut().bus_mut().board_mut() = b;
    Some(e)
}

fn check_cpu_side(c: &Machine, pre: &Machine, at: (usize, u32), what: &str) -> Result<(), Violation> {
    if c.registers().content() != &[0u8; 8] {
        return Err(v("reset-getters", at, format!("{}: registers {:02X?} are not all zero", what, c.registers().content())));
    }
    if c.word().bits() != 0x02 {
        return Err(v("reset-getters", at, format!("{}: instruction register 0x{:02X} is not the reset opcode 0x02", what, c.word().bits())));
    }
    if c.state() != State::Running {
        return Err(v("reset-getters", at, format!("{}: state {} instead of Running", what, state_name(c.state()))));
    }
    if c.bus().output_fe() != 0 || c.bus().output_ff() != 0 {
        return Err(v("reset-getters", at, format!("{}: output registers {:02X}/{:02X} not cleared", what, c.bus().output_fe(), c.bus().output_ff())));
    }
    if c.bus().is_key_edge_int_enabled() {
        return Err(v("reset-getters", at, format!("{}: key-edge interrupt still enabled (MICR not cleared)", what)));
    }
    if c.is_instruction_done() {
        return Err(v("reset-getters", at, format!("{}: micro-sequencer not at its power-on word", what)));
    }
    if c.signals().interrupt_flipflop_1() {
        return Err(v("reset-getters", at, format!("{}: pending key interrupt survived", what)));
    }
    if c.stacksize() != pre.stacksize() && !what.starts_with("load") {
        return Err(v("reset-untouched", at, format!("{}: stack size changed", what)));
    }
    if c.programsize() != pre.programsize() && !what.starts_with("load") {
        return Err(v("reset-untouched", at, format!("{}: program size limit changed", what)));
    }
    if c.step_mode() != pre.step_mode() {
        return Err(v("reset-untouched", at, format!("{}: step mode changed", what)));
    }
    Ok(())
}

fn board_physical_unchanged(c: &Machine, pre: &Machine, at: (usize, u32), what: &str) -> Result<(), Violation> {
    let (b, p) = (c.bus().board(), pre.bus().board());
    let same = *b.digital_input1() == *p.digital_input1()
        && b.temp().to_bits() == p.temp().to_bits()
        && b.analog_inputs()[0].to_bits() == p.analog_inputs()[0].to_bits()
        && b.analog_inputs()[1].to_bits() == p.analog_inputs()[1].to_bits()
        && (b.dasr().bits() & 0xC0) == (p.dasr().bits() & 0xC0);
    if !same {
        return Err(v("reset-untouched", at, format!("{}: a physical board input (digital input port, temperature, analog inputs, jumpers) changed", what)));
    }
    Ok(())
}

fn hidden_state(c: &Machine, e: Option<Machine>, at: (usize, u32), what: &str, ctx: &mut Ctx) -> Result<(), Violation> {
    if let Some(e) = e {
        ctx.cov.probe("constructed-machine-equality");
        if *c != e {
            let mut e2 = e.clone();
            let mut c2 = c.clone();
            // which part? give the reader a hint using behaviour: clock both and look for a difference
            let mut hint = "a private field differs from a machine constructed through public setters".to_string();
            for i in 0..40 {
                c2.trigger_key_clock();
                e2.trigger_key_clock();
                if c2.registers().content() != e2.registers().content() || c2.is_instruction_done() != e2.is_instruction_done() {
                    hint = format!("it behaves differently from a machine constructed through public setters after {} clock edges (registers {:02X?} vs {:02X?})", i + 1, c2.registers().content(), e2.registers().content());
                    break;
                }
            }
            return Err(v("reset-hidden-state", at, format!("{}: {}", what, hint)));
        }
    } else {
        ctx.cov.probe("constructed-machine-skipped");
    }
    Ok(())
}

fn reset_faults(pre: &Machine, scn: &Scn, known: &Known, at: (usize, u32), ctx: &mut Ctx) -> Result<(), Violation> {
    if let Some(o) = scn.only {
        if o != (at.0 as u32, at.1) {
            return Ok(());
        }
    }
    let phase = mix(
        mix(class_of(pre.word().bits()) as u64, pre.is_instruction_done() as u64),
        mix(pre.state() as u64, pre.signals().interrupt_flipflop_1() as u64),
    );
    ctx.cov.distinct(mix(phase, at.1.min(40) as u64));
    if pre.signals().interrupt_flipflop_1() {
        ctx.cov.probe("reset-with-key-flip-flop-set");
    }
    if !pre.is_instruction_done() && pre.state() == State::Running {
        ctx.cov.probe("reset-mid-instruction");
    }
    if pre.state() != State::Running {
        ctx.cov.probe("reset-of-halted-machine");
    }
    let b = pre.bus().board();
    if *b.digital_output1() != 0 || *b.digital_output2() != 0 || b.daicr().bits() != 0 || b.uio_dir().iter().any(|d| *d) {
        ctx.cov.probe("board-outputs-non-default-before-reset");
    }
    ctx.cov.evaluations += 3;

    // ---- RST-CPU ----
    let mut c = pre.clone();
    c.cpu_reset();
    ctx.cov.fault("RST-CPU");
    check_cpu_side(&c, pre, at, "cpu_reset")?;
    if c.bus().memory() != pre.bus().memory() {
        return Err(v("reset-untouched", at, "cpu_reset: RAM changed".into()));
    }
    for a in 0xFC..=0xFFu8 {
        if c.bus().read(a) != pre.bus().read(a) {
            return Err(v("reset-untouched", at, format!("cpu_reset: input register 0x{:02X} changed", a)));
        }
    }
    if c.bus().board() != pre.bus().board() {
        return Err(v("reset-untouched", at, "cpu_reset: the extension board changed".into()));
    }
    {
        let cands = candidates(known, false);
        let any_ok = cands.iter().skip(1).any(|k| construct(pre, false, k).map(|e| e == c).unwrap_or(false));
        if !any_ok {
            hidden_state(&c, construct(pre, false, known), at, "cpu_reset", ctx)?;
        }
    }

    // ---- RST-MASTER ----
    let mut c = pre.clone();
    c.master_reset();
    ctx.cov.fault("RST-MASTER");
    check_cpu_side(&c, pre, at, "master_reset")?;
    if c.bus().memory() != pre.bus().memory() {
        return Err(v("reset-untouched", at, "master_reset: RAM changed".into()));
    }
    for a in 0xFC..=0xFFu8 {
        if c.bus().read(a) != 0 {
            return Err(v("master-reset-clears", at, format!("master_reset: input register 0x{:02X} = 0x{:02X} not cleared", a, c.bus().read(a))));
        }
    }
    {
        let b = c.bus().board();
        if *b.digital_output1() != 0 || *b.digital_output2() != 0 {
            return Err(v("master-reset-clears", at, format!("master_reset: board output ports {:02X}/{:02X} not cleared", b.digital_output1(), b.digital_output2())));
        }
        if b.analog_outputs()[0] != 0.0 || b.analog_outputs()[1] != 0.0 {
            return Err(v("master-reset-clears", at, format!("master_reset: analog outputs {:?} not cleared", b.analog_outputs())));
        }
        if b.daicr().bits() != 0 {
            return Err(v("master-reset-clears", at, format!("master_reset: interrupt control 0x{:02X} not cleared", b.daicr().bits())));
        }
        if *b.fan_rpm() != 0 {
            return Err(v("master-reset-clears", at, format!("master_reset: fan still at {} rpm", b.fan_rpm())));
        }
        if b.uio_dir().iter().any(|d| *d) {
            return Err(v("master-reset-clears", at, format!("master_reset: UIO directions {:?} not all input", b.uio_dir())));
        }
    }
    board_physical_unchanged(&c, pre, at, "master_reset")?;
    {
        // "exactly": besides the listed outputs and settings nothing else on the board changes.
        // The interrupt status (flip-flop, source flag) and the UIO pin levels are neither outputs
        // nor settings; the comparator / FAN status bits are left out (DESIGN.md section 6, C07).
        let (b, p) = (c.bus().board(), pre.bus().board());
        if b.daisr().bits() != p.daisr().bits() {
            return Err(v("reset-untouched", at, format!("master_reset: the board's interrupt status changed 0x{:02X} -> 0x{:02X}", p.daisr().bits(), b.daisr().bits())));
        }
        if (b.dasr().bits() & 0x07) != (p.dasr().bits() & 0x07) {
            return Err(v("reset-untouched", at, format!("master_reset: the UIO pin levels changed 0b{:03b} -> 0b{:03b}", p.dasr().bits() & 7, b.dasr().bits() & 7)));
        }
    }
    // (the UART data byte after a master reset is pinned by no statement: kept or cleared)
    {
        let cleared_ok = candidates(known, true).iter().skip(1).any(|k| construct(pre, true, k).map(|e| e == c).unwrap_or(false));
        if !cleared_ok {
            hidden_state(&c, construct(pre, true, known), at, "master_reset", ctx)?;
        }
    }

    // ---- master reset issued on the bus (public `Bus::master_reset`): the bus-side part of the same rule
    {
        let mut c = pre.clone();
        let _ = c.raw_mut().bus_mut().master_reset();
        ctx.cov.fault("RST-MASTER(bus)");
        for a in 0xFC..=0xFFu8 {
            if c.bus().read(a) != 0 {
                return Err(v("master-reset-clears", at, format!("Bus::master_reset: input register 0x{:02X} = 0x{:02X} not cleared", a, c.bus().read(a))));
            }
        }
        let b = c.bus().board();
        if *b.digital_output1() != 0 || *b.digital_output2() != 0 || b.daicr().bits() != 0 || b.uio_dir().iter().any(|d| *d) {
            return Err(v(
                "master-reset-clears",
                at,
                format!("Bus::master_reset: board outputs {:02X}/{:02X}, interrupt control 0x{:02X}, UIO directions {:?} not cleared", b.digital_output1(), b.digital_output2(), b.daicr().bits(), b.uio_dir()),
            ));
        }
        if c.bus().memory() != pre.bus().memory() {
            return Err(v("reset-untouched", at, "Bus::master_reset: RAM changed".into()));
        }
    }

    // ---- RELOAD ----
    let mut c = pre.clone();
    c.load(scn.follow.bytecode());
    ctx.cov.fault("RELOAD");
    check_cpu_side(&c, pre, at, "load")?;
    board_physical_unchanged(&c, pre, at, "load")?;
    {
        let mem = c.bus().memory();
        for i in 0..240 {
            let want = scn.follow.bytes.get(i).copied().unwrap_or(0);
            if mem[i] != want {
                return Err(v("load-image", at, format!("load: RAM[0x{:02X}] = 0x{:02X}, image followed by zeros has 0x{:02X}", i, mem[i], want)));
            }
        }
        let want_stack = match scn.follow.stack {
            0 => Stacksize::_0,
            16 => Stacksize::_16,
            32 => Stacksize::_32,
            48 => Stacksize::_48,
            64 => Stacksize::_64,
            _ => pre.stacksize(),
        };
        if c.stacksize() != want_stack {
            return Err(v("load-limits", at, format!("load: stack size {:?}, program states {:?}", c.stacksize(), want_stack)));
        }
        let want_limit = if scn.follow.keep_limit { pre.programsize() } else { Programsize::Size(scn.follow.effective_limit()) };
        if c.programsize() != want_limit {
            return Err(v("load-limits", at, format!("load: program size {:?}, the program states {:?}{}", c.programsize(), want_limit, if scn.follow.keep_limit { " (NOSET: keep)" } else { "" })));
        }
    }
    // load = master reset + RAM image + limits: inputs cleared, board outputs cleared, and the whole
    // machine equals one constructed through public setters
    for a in 0xFC..=0xFFu8 {
        if c.bus().read(a) != 0 {
            return Err(v("load-master-reset", at, format!("load: input register 0x{:02X} = 0x{:02X} survived the load", a, c.bus().read(a))));
        }
    }
    {
        let b = c.bus().board();
        if *b.digital_output1() != 0 || *b.digital_output2() != 0 || b.daicr().bits() != 0 || *b.fan_rpm() != 0 || b.uio_dir().iter().any(|d| *d) {
            return Err(v("load-master-reset", at, "load: board outputs / interrupt control / fan / UIO directions survived the load".into()));
        }
    }
    {
        let build = |k: &Known| -> Option<Machine> {
            let mut e = construct(pre, true, k)?;
            let mem = e.raw_mut().bus_mut().memory_mut();
            for i in 0..240 {
                mem[i] = scn.follow.bytes.get(i).copied().unwrap_or(0);
            }
            e.raw_mut().set_stacksize(c.stacksize());
            e.raw_mut().set_programsize(c.programsize());
            Some(e)
        };
        let cleared_ok = candidates(known, true).iter().skip(1).any(|k| build(k).map(|e| e == c).unwrap_or(false));
        if !cleared_ok {
            if let Some(e) = build(known) {
                hidden_state(&c, Some(e), at, "load", ctx)?;
            }
        }
    }
    // cycle-for-cycle like a newly created machine
    let mut fresh = Machine::new_with_program(MachineConfig::default(), scn.follow.bytecode());
    if matches!(scn.follow.stack, 0 | 16 | 32 | 48 | 64) && !scn.follow.keep_limit {
        fresh.set_step_mode(c.step_mode());
        for (i, val) in scn.follow_inputs.iter().enumerate() {
            let s = Stim::InReg(i as u8, *val);
            s.apply(&mut c);
            s.apply(&mut fresh);
        }
        let real = matches!(c.step_mode(), StepMode::Real);
        for e in 0..(if real { 1500 } else { 300 }) {
            c.trigger_key_clock();
            fresh.trigger_key_clock();
            let same = c.registers().content() == fresh.registers().content()
                && c.state() == fresh.state()
                && c.is_instruction_done() == fresh.is_instruction_done()
                && c.word().bits() == fresh.word().bits()
                && c.bus().output_fe() == fresh.bus().output_fe()
                && c.bus().output_ff() == fresh.bus().output_ff()
                && c.bus().memory() == fresh.bus().memory();
            if !same {
                return Err(v(
                    "load-history-dependence",
                    at,
                    format!(
                        "load: after {} clock call(s) the reloaded machine differs from a newly created one: registers {:02X?} vs {:02X?}, state {} vs {}, at-boundary {} vs {}",
                        e + 1,
                        c.registers().content(),
                        fresh.registers().content(),
                        state_name(c.state()),
                        state_name(fresh.state()),
                        c.is_instruction_done(),
                        fresh.is_instruction_done()
                    ),
                ));
            }
            if c.state() != State::Running {
                break;
            }
        }
        ctx.cov.sim_edges += 1500;
    }
    Ok(())
}

fn run(scn: &Scn, ctx: &mut Ctx) -> Result<(), Violation> {
    if let Some(seq) = &scn.lockstep {
        let cfg = crate::engine::SeqCfg { prop: "C07", compare: crate::lockstep::Compare::Off, check_cost: true, compare_board: false, lenient: true };
        crate::engine::run_seq(seq, cfg, ctx, |ls, ev, ctx| {
            if *ev == crate::lockstep::Event::Boundary {
                if let Some(i) = &ls.last {
                    if i.class == crate::isa::Class::Reset {
                        ctx.cov.probe("lockstep:first-boundary-after-reset");
                    }
                }
            }
        })?;
        ctx.cov.evaluations += seq.events.len() as u64;
        return Ok(());
    }
    if let Some(p) = &scn.plane {
        return run_plane(p, ctx);
    }
    let mut m = match scn.init {
        Some(c) => {
            ctx.cov.probe("machine-created-from-a-non-default-configuration");
            Machine::new(MachineConfig { input_fc: c[0], input_fd: c[1], input_fe: c[2], input_ff: c[3], digital_input1: c[4], jumper1: c[5] & 1 != 0, ..MachineConfig::default() })
        }
        None => Machine::new(MachineConfig::default()),
    };
    let mut known = Known::default();
    for (i, op) in scn.ops.iter().enumerate() {
        match op {
            Op::Load(img) => {
                m.load(img.bytecode());
                known.timer_writes.clear();
                known.timer_tainted = false;
                known.uart_either = true;
                ctx.cov.fault("LOAD");
            }
            Op::Clock(n, asm) => {
                m.set_step_mode(if *asm { StepMode::Assembly } else { StepMode::Real });
                for t in 0..*n {
                    if *asm {
                        // an Assembly burst hides its edges: replay it on a shadow, edge by edge, to see
                        // whether the program wrote to a register that has no getter
                        let mut shadow = m.clone();
                        shadow.set_step_mode(StepMode::Real);
                        m.trigger_key_clock();
                        let mut k = 0;
                        loop {
                            let mut probe = shadow.clone();
                            probe.set_step_mode(StepMode::Assembly);
                            if probe == m {
                                break;
                            }
                            shadow.trigger_key_clock();
                            observe_port_write(&shadow, &mut known);
                            k += 1;
                            if k > 4200 {
                                known.timer_tainted = true;
                                known.uart_tainted = true;
                                break;
                            }
                        }
                    } else {
                        m.trigger_key_clock();
                        observe_port_write(&m, &mut known);
                    }
                    ctx.cov.sim_edges += 1;
                    // reset in mid-instruction: at every tick of a Real-mode burst
                    if !*asm || t + 1 == *n {
                        reset_faults(&m, scn, &known, (i, t), ctx)?;
                    }
                }
                ctx.cov.fault(if *asm { "CLOCK-ASM" } else { "CLOCK-REAL" });
            }
            Op::S(s) => {
                s.apply(&mut m);
                ctx.cov.fault(s.kind());
                match s {
                    Stim::BusWrite(a, val) if *a == 0xFC || *a == 0xFD => known.timer_writes.push((*a, *val)),
                    Stim::BusWrite(0xFA, val) => {
                        known.uart = Some(*val);
                        known.uart_tainted = false;
                        known.uart_either = false;
                    }
                    Stim::MasterReset | Stim::Load(_) => {
                        known.timer_writes.clear();
                        known.timer_tainted = false;
                        known.uart_either = true;
                    }
                    _ => {}
                }
            }
        }
        reset_faults(&m, scn, &known, (i, u32::MAX), ctx)?;
        ctx.tr(mix(i as u64, m.registers().content()[3] as u64));
    }
    Ok(())
}

fn run_plane(p: &Plane, ctx: &mut Ctx) -> Result<(), Violation> {
    let mut base = Machine::new(MachineConfig::default());
    for (a, b) in &p.ram {
        base.raw_mut().bus_mut().write(*a % 0xF0, *b);
    }
    base.raw_mut().bus_mut().write(0xFE, p.out[0]);
    base.raw_mut().bus_mut().write(0xFF, p.out[1]);
    base.set_input_fc(p.inputs[0]);
    base.set_input_fd(p.inputs[1]);
    base.set_input_fe(p.inputs[2]);
    base.set_input_ff(p.inputs[3]);
    if !p.fa_last {
        base.raw_mut().bus_mut().write(0xFA, p.fa);
    }
    let known = Known { uart: Some(p.fa), ..Known::default() };
    // the expectation depends on the swept bytes only through the interrupt status register
    let mut expected: Vec<(u8, bool, Vec<Machine>)> = vec![];
    let (fbs, f9s): (Vec<u8>, Vec<u8>) = match p.only {
        Some((fb, f9)) => (vec![fb], vec![f9]),
        None => ((0..=255).collect(), (0..=255).collect()),
    };
    for &fb in &fbs {
        for &f9 in &f9s {
            let mut pre = base.clone();
            {
                let bus = pre.raw_mut().bus_mut();
                if p.mask_first {
                    bus.write(0xF9, f9);
                    bus.write(0xFB, fb);
                } else {
                    bus.write(0xFB, fb);
                    bus.write(0xF9, f9);
                }
                if p.fa_last {
                    bus.write(0xFA, p.fa);
                }
            }
            if p.key {
                pre.trigger_key_interrupt();
            }
            let misr = pre.bus().read(0xF9);
            for master in [false, true] {
                let what = if master { "master_reset" } else { "cpu_reset" };
                let mut c = pre.clone();
                if master {
                    c.master_reset();
                } else {
                    c.cpu_reset();
                }
                ctx.cov.evaluations += 1;
                let fail = |vi: Violation| Violation::new("C07", &vi.oracle, format!("plane fa=0x{:02X} fb=0x{:02X} f9=0x{:02X} (bytes written to 0xFA / 0xFB / 0xF9 before the reset) {}", p.fa, fb, f9, vi.detail));
                check_cpu_side(&c, &pre, (0, u32::MAX), what).map_err(fail)?;
                if !master && (0..0xF0u8).any(|a| c.bus().read(a) != pre.bus().read(a)) {
                    return Err(fail(v("reset-untouched", (0, u32::MAX), format!("{}: RAM changed", what))));
                }
                if !master && (0xFCu8..=0xFF).any(|a| c.bus().read(a) != pre.bus().read(a)) {
                    return Err(fail(v("reset-untouched", (0, u32::MAX), format!("{}: an input register changed", what))));
                }
                if !expected.iter().any(|e| e.0 == misr && e.1 == master) {
                    let cands: Vec<Machine> = candidates(&known, master).iter().filter_map(|k| construct(&pre, master, k)).collect();
                    expected.push((misr, master, cands));
                }
                let cands = &expected.iter().find(|e| e.0 == misr && e.1 == master).unwrap().2;
                if !cands.is_empty() && !cands.iter().any(|e| *e == c) {
                    return Err(fail(v("reset-hidden-state", (0, u32::MAX), format!("{}: a private field differs from a machine constructed through public setters (interrupt mask, UART control and data registers have no getter)", what))));
                }
            }
        }
    }
    ctx.cov.probe("register-plane-swept");
    ctx.cov.fault_n("RST-CPU", (fbs.len() * f9s.len()) as u64);
    ctx.cov.fault_n("RST-MASTER", (fbs.len() * f9s.len()) as u64);
    ctx.cov.distinct(mix(0x9A7E, p.fa as u64));
    Ok(())
}

/// program that writes known values to the ports (board, MICR, outputs) and then idles
fn port_writer(rng: &mut Rng) -> Vec<u8> {
    let mut p = Prog::new();
    p.ldsp(gen::Src::Imm(0xEF));
    for _ in 0..(2 + rng.below(8)) {
        let a = *rng.pick(&[0xF0u8, 0xF1, 0xF2, 0xF2, 0xF3, 0xF9, 0xFB, 0xFE, 0xFF]);
        let val = if a == 0xF2 { *rng.pick(&[0x80u8 | 7, 0x80 | 2, 0xC0 | 0x21, 0xC0 | 0x2E, 0x05, 0x03]) } else { rng.u8() };
        p.ld_imm(0, val);
        p.st_abs(a, 0);
    }
    if rng.bool() {
        p.ei();
    }
    let top = p.here();
    p.un(0x44, 1);
    p.push(1);
    p.pop(2);
    p.jr_to(0, top);
    p.b
}

fn program(rng: &mut Rng) -> Image {
    let (bytes, stack) = match rng.below(4) {
        0 => (port_writer(rng), 16),
        1 => {
            let irq = IrqOpts { enable_key: true, di_windows: rng.bool(), nested_ei: false, isr_work: rng.bool(), enable_by_store: rng.bool(), mask_windows: false, mid_stop: false, isr_ei_first: false };
            let o = HazardOpts { len: 6 + rng.usize(20), wild: false, run_into_io: false, with_ei: true, irq: Some(irq) };
            (gen::hazard_program(rng, o), 32)
        }
        _ => {
            let o = HazardOpts { len: 6 + rng.usize(30), wild: false, run_into_io: false, with_ei: rng.bool(), irq: None };
            (gen::hazard_program(rng, o), gen::pick_stack(rng))
        }
    };
    let bytes = odd_length(rng, bytes);
    // sometimes a declared program size smaller than the image (code and data behind the limit are
    // still part of the image that load has to copy)
    let limit = if rng.chance(1, 6) && !bytes.is_empty() { Some(rng.below(bytes.len() as u64) as u8) } else if rng.bool() { Some(0xFF) } else { None };
    Image { bytes, stack: if rng.chance(1, 8) { 99 } else { stack }, limit, keep_limit: rng.chance(1, 8) }
}

/// image-length extremes: empty, one or two bytes, exactly filling RAM
fn odd_length(rng: &mut Rng, mut bytes: Vec<u8>) -> Vec<u8> {
    if rng.chance(1, 10) {
        let n = *rng.pick(&[0usize, 0, 1, 2, 239, 240]);
        bytes.resize(n, 0x02);
    }
    bytes
}

fn follow_up(rng: &mut Rng) -> Image {
    // uses only RAM and the FC-FF registers
    let o = HazardOpts { len: 6 + rng.usize(40), wild: false, run_into_io: false, with_ei: false, irq: None };
    let bytes = gen::hazard_program(rng, o);
    let bytes = odd_length(rng, bytes);
    let limit = if rng.chance(1, 6) && !bytes.is_empty() { Some(rng.below(bytes.len() as u64) as u8) } else if rng.bool() { Some(0xFF) } else { None };
    Image { bytes, stack: *rng.pick(&[0u8, 16, 32, 48, 64, 16, 99]), limit, keep_limit: rng.chance(1, 6) }
}

impl Check for C07 {
    type Scn = Scn;
    fn id(&self) -> &'static str {
        "C07"
    }
    fn level(&self) -> &'static str {
        "fault_enumeration"
    }
    fn runs(&self, tier: Tier) -> u64 {
        match tier {
            Tier::Quick => 12_000,
            Tier::Thorough => 600_000,
        }
    }
    fn generate(&self, rng: &mut Rng, _tier: Tier, idx: u64) -> Scn {
        if idx % 40 == 6 {
            // register-value plane; fa walks through all 256 values within 10 240 runs
            let plane = Plane {
                fa: ((idx / 40) % 256) as u8,
                out: [rng.u8(), rng.u8()],
                inputs: [rng.u8(), rng.u8(), rng.u8(), rng.u8()],
                ram: (0..rng.below(6)).map(|_| (rng.below(0xF0) as u8, rng.u8())).collect(),
                key: rng.bool(),
                mask_first: rng.bool(),
                fa_last: rng.bool(),
                only: None,
            };
            return Scn { ops: vec![], follow: Image { bytes: vec![], stack: 16, limit: None, keep_limit: false }, follow_inputs: [0; 4], only: None, lockstep: None, init: None, plane: Some(plane) };
        }
        if idx % 4 == 3 {
            // lock-step scenario with resets / reloads / key presses on arbitrary edges
            let mut setup = gen::hazard_setup(rng, 0);
            setup.regs = None;
            let max_edges = 400 + rng.below(1500) as u32;
            let nev = 1 + rng.below(8);
            let mut events: Vec<(u32, Stim)> = (0..nev)
                .map(|_| {
                    let t = rng.below(max_edges as u64) as u32;
                    let s = match rng.below(8) {
                        0..=3 => Stim::CpuReset,
                        4 => Stim::MasterReset,
                        5 => Stim::Load(program(rng)),
                        6 => Stim::KeyInt,
                        _ => Stim::InReg(rng.below(4) as u8, rng.u8()),
                    };
                    (t, s)
                })
                .collect();
            events.sort_by_key(|e| e.0);
            return Scn {
                ops: vec![],
                follow: Image { bytes: vec![], stack: 16, limit: None, keep_limit: false },
                follow_inputs: [0; 4],
                only: None,
                lockstep: Some(crate::engine::SeqScn { setup, events, max_edges }),
                init: None,
                plane: None,
            };
        }
        let n = 3 + rng.usize(40);
        let mut ops = vec![];
        if rng.chance(9, 10) {
            ops.push(Op::Load(program(rng)));
        }
        for _ in 0..n {
            ops.push(match rng.below(22) {
                0 => Op::Load(program(rng)),
                1..=6 => {
                    let span = if rng.bool() { 12 } else { 120 };
                    Op::Clock(1 + rng.below(span) as u32, false)
                }
                7 => Op::Clock(1 + rng.below(6) as u32, true),
                8 | 9 => Op::S(Stim::KeyInt),
                10 => Op::S(Stim::Continue),
                11 => Op::S(Stim::InReg(rng.below(4) as u8, rng.u8())),
                12 => Op::S(Stim::Di(rng.u8())),
                13 => Op::S(Stim::Jumper(1 + rng.below(2) as u8, rng.bool())),
                14 => Op::S(Stim::Uio(1 + rng.below(3) as u8, rng.bool())),
                15 => Op::S(Stim::Volt(rng.below(3) as u8, if rng.bool() { (rng.below(520) as f32 / 100.0).to_bits() } else { finite_bits(rng) })),
                16 | 17 => {
                    let a = *rng.pick(&[0xF0u8, 0xF1, 0xF2, 0xF3, 0xF9, 0xFA, 0xFB, 0xFC, 0xFD, 0xFE, 0xFF]);
                    Op::S(Stim::BusWrite(a, rng.u8()))
                }
                18 => Op::S(Stim::CpuReset),
                19 => Op::S(Stim::MasterReset),
                20 => Op::S(Stim::Mode(rng.bool())),
                _ => Op::S(Stim::Flip(rng.below(0xF0) as u8, rng.below(8) as u8)),
            });
        }
        if rng.chance(1, 3) {
            // an 'armed' board somewhere in the history: an analog input at a non-zero voltage, the DAC
            // of its comparator above or below it, and the interrupt control register selecting a
            // source with a polarity (what a reset does to the outputs must not raise the interrupt)
            let at = rng.usize(ops.len() + 1);
            let which = rng.below(3) as u8;
            let volt = (1 + rng.below(250)) as f32 / 100.0;
            let dac_addr = if which == 1 { 0xF0 } else { 0xF1 };
            let dac = if rng.bool() { 255 - rng.below(4) as u8 } else { rng.below(20) as u8 };
            let src = if rng.chance(2, 3) { if which == 1 { 4 } else { 5 } } else { rng.below(8) as u8 };
            let icr = 0xC0 | 0x20 | ((rng.bool() as u8) << 3) | src;
            let bundle = [Op::S(Stim::Volt(which, volt.to_bits())), Op::S(Stim::BusWrite(dac_addr, dac)), Op::S(Stim::BusWrite(0xF2, icr))];
            for (k, o) in bundle.iter().enumerate() {
                ops.insert(at + k, o.clone());
            }
        }
        Scn { ops, follow: follow_up(rng), follow_inputs: [rng.u8(), rng.u8(), rng.u8(), rng.u8()], only: None, lockstep: None, init: if rng.chance(1, 3) { Some([rng.u8(), rng.u8(), rng.u8(), rng.u8(), rng.u8(), rng.u8()]) } else { None }, plane: None }
    }
    fn execute(&self, scn: &Scn, ctx: &mut Ctx) -> Result<(), Violation> {
        run(scn, ctx)
    }
    fn shrink(&self, scn: &Scn, v: &Violation) -> Vec<Scn> {
        if let Some(p) = &scn.plane {
            let byte = |key: &str| v.detail.find(key).and_then(|i| u8::from_str_radix(v.detail.get(i + key.len()..i + key.len() + 2)?, 16).ok());
            let mut out = vec![];
            if let (None, Some(fb), Some(f9)) = (p.only, byte("fb=0x"), byte("f9=0x")) {
                out.push(Scn { plane: Some(Plane { only: Some((fb, f9)), ..p.clone() }), ..scn.clone() });
            }
            if p.only.is_some() {
                for k in 0..p.ram.len() {
                    let mut q = p.clone();
                    q.ram.remove(k);
                    out.push(Scn { plane: Some(q), ..scn.clone() });
                }
                for q in [Plane { key: false, ..p.clone() }, Plane { out: [0; 2], ..p.clone() }, Plane { inputs: [0; 4], ..p.clone() }, Plane { mask_first: false, ..p.clone() }, Plane { fa_last: false, ..p.clone() }] {
                    if format!("{:?}", q) != format!("{:?}", p) {
                        out.push(Scn { plane: Some(q), ..scn.clone() });
                    }
                }
            }
            return out;
        }
        if let Some(seq) = &scn.lockstep {
            return crate::engine::shrink_seq(seq, v).into_iter().map(|s| Scn { lockstep: Some(s), ..scn.clone() }).collect();
        }
        let mut out = vec![];
        let opi = v.detail.strip_prefix("op#=").and_then(|s| s.split(' ').next()).and_then(|s| s.parse::<usize>().ok());
        let tick = v.detail.find("tick=").and_then(|i| v.detail[i + 5..].split(' ').next()).map(|s| if s == "end" { u32::MAX } else { s.parse().unwrap_or(u32::MAX) });
        if let (Some(i), Some(t)) = (opi, tick) {
            if scn.only.is_none() {
                let mut c = scn.clone();
                c.only = Some((i as u32, t));
                c.ops.truncate(i + 1);
                out.push(c);
            }
        }
        if let Some((oi, t)) = scn.only {
            // drop earlier operations (keeps the fault point at the last operation)
            for k in 0..scn.ops.len().saturating_sub(1) {
                let mut c = scn.clone();
                c.ops.remove(k);
                c.only = Some((oi - 1, t));
                out.push(c);
            }
            // shorten clock bursts
            for k in 0..scn.ops.len() {
                if let Op::Clock(n, asm) = &scn.ops[k] {
                    if *n > 1 && (k as u32) < oi {
                        let mut c = scn.clone();
                        c.ops[k] = Op::Clock(n / 2, *asm);
                        out.push(c);
                    }
                }
            }
        }
        out
    }
    fn rule(&self) -> String {
        "Histories of 3-43 operations (program loads incl. NOSET stack sizes, clock bursts in Real and Assembly mode, key presses, CONTINUE, input-register / jumper / UIO / voltage / digital-input changes, direct writes to every port incl. UART and timer registers, RAM bit flips, resets, step-mode switches; loaded programs write the board ports, MICR and output registers). After every operation and at every tick of every Real-mode burst the machine is cloned three times and hit with cpu_reset, master_reset and load(follow-up program). One run in forty is a register-value plane instead: byte fa = (run index / 40) mod 256 written to 0xFA on a seeded machine, then all 65 536 pairs written to 0xFB / 0xF9, each followed by cpu_reset and master_reset on a clone (same oracles). evaluations = reset faults injected; distinct = distinct (opcode class in flight, at-boundary?, state, key flip-flop set?, tick inside the burst) reset points.".into()
    }
    fn assumptions(&self) -> Vec<String> {
        vec![
            "constructed-machine equality needs the values last written to 0xFA/0xFC/0xFD (no getter): histories write those only by direct bus calls the harness records; the interrupt status register is reproduced with key presses".into(),
            "what a master reset does to the comparator / UIO / FAN status bits and to the board's interrupt status is not specified by the property and only enters through the constructed machine, which applies Board::master_reset itself".into(),
            "follow-up programs use only RAM and the FC-FF registers, as the statement requires".into(),
        ]
    }
    fn components(&self) -> Value {
        json!({"Machine::{cpu_reset, master_reset, load, new_with_program}, RawMachine, Bus, Board": "real", "history scheduler, PRNG": "harness", "reference interpreter": "not used (model-free)"})
    }
    fn sample(&self, s: &Scn) -> Value {
        json!({
            "ops": s.ops.iter().take(14).map(|o| match o { Op::Load(i) => json!({"Load": {"len": i.bytes.len(), "stack": i.stack, "limit": i.limit}}), o => serde_json::to_value(o).unwrap() }).collect::<Vec<_>>(),
            "n_ops": s.ops.len(), "follow_len": s.follow.bytes.len(), "follow_stack": s.follow.stack,
        })
    }
    fn must_fire(&self, _tier: Tier) -> Vec<String> {
        ["RST-CPU", "RST-MASTER", "RELOAD", "lockstep:first-boundary-after-reset", "reset-mid-instruction", "reset-with-key-flip-flop-set", "reset-of-halted-machine", "board-outputs-non-default-before-reset", "constructed-machine-equality", "register-plane-swept"].iter().map(|s| s.to_string()).collect()
    }
    fn exhaustive_dims(&self, _tier: Tier) -> Vec<String> {
        vec!["reset point: every prefix of each history, every tick of each Real-mode burst, x 3 reset kinds".into(), "register-value plane: all 256 x 256 x 256 bytes in UART data / UART control / interrupt mask registers before cpu_reset and master_reset (256 planes of 65 536 pairs, spread over the first 10 240 runs)".into()]
    }
}
