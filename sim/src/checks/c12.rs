//! C12: run/verify report exactly what the stepped machine does, incl. the exit status.
//! In-process layer: the real `RunnerConfig::run` / `RunExpectations::verify` against the loop the
//! property statement spells out (R-RUN, over a second real Machine), with schedules of injected
//! interrupts and resets incl. duplicates, cycle 0 and entries beyond the end. Process layer: the
//! real `2a-emulator` binary with generated argv (all three radices), program files and file
//! faults; stdout and exit status compared with R-RUN.
use crate::driver::{mix, verif_dir, Check, Ctx, Tier, Violation};
use crate::prng::Rng;
use crate::sut::{state_name, Stim};
use crate::textgen;
use emulator_2a_lib::compiler::Translator;
use emulator_2a_lib::machine::{Machine, MachineConfig, State};
use emulator_2a_lib::parser::AsmParser;
use emulator_2a_lib::runner::{RunExpectationsBuilder, RunnerConfigBuilder};
use serde::{Deserialize, Serialize};
use serde_json::{json, Value};
use std::path::PathBuf;

pub struct C12;

#[derive(Clone, Debug, Default, PartialEq, Serialize, Deserialize)]
pub struct Cfg {
    pub fc: u8,
    pub fd: u8,
    pub fe: u8,
    pub ff: u8,
    pub di1: u8,
    pub temp: f32,
    pub ai1: f32,
    pub ai2: f32,
    pub j1: bool,
    pub j2: bool,
    pub uio: [bool; 3],
}

#[derive(Clone, Debug, PartialEq, Serialize, Deserialize)]
pub enum FileFault {
    Missing,
    Directory,
    NonUtf8,
}

#[derive(Clone, Debug, PartialEq, Serialize, Deserialize)]
pub enum Layer {
    InProcess,
    /// spawn the real binary; radix selectors for the byte flags (0 dec, 1 hex, 2 bin)
    Process { radix: Vec<u8>, file_fault: Option<FileFault>, bad_arg: Option<(String, String)> },
    /// `2a-emulator verify FILE`
    VerifyCmd { file_fault: Option<FileFault> },
}

#[derive(Clone, Debug, Serialize, Deserialize)]
pub struct Scn {
    pub program: String,
    pub cfg: Cfg,
    pub cycles: u32,
    pub interrupts: Vec<u64>,
    pub resets: Vec<u64>,
    /// stated expectations: state (0 running, 1 stopped, 2 error), FE, FF
    pub expect: Option<(Option<u8>, Option<u8>, Option<u8>)>,
    pub layer: Layer,
    /// voltages given as literal text (0 temp, 1 ai1, 2 ai2): the command line gets the text, the
    /// stepped machine what Rust's f32 parser makes of it (`nan`, `inf`, `1e40`, `-0`, ...)
    #[serde(default)]
    pub volt_text: Vec<(u8, String)>,
    /// a cycle budget beyond u32 (usize::MAX, 2^32, 2^63, ...); only given to runs that halt
    #[serde(default)]
    pub huge_budget: Option<u64>,
}

fn budget(scn: &Scn) -> u64 {
    scn.huge_budget.unwrap_or(scn.cycles as u64)
}

fn v(oracle: &str, d: String) -> Violation {
    Violation::new("C12", oracle, d)
}

fn mconfig(scn: &Scn) -> MachineConfig {
    let mut c = scn.cfg.clone();
    for (i, (w, t)) in scn.volt_text.iter().enumerate() {
        if scn.volt_text[..i].iter().any(|(x, _)| x == w) {
            continue; // the first spelling per input counts (as on the command line)
        }
        if let Ok(f) = t.parse::<f32>() {
            match w {
                0 => c.temp = f,
                1 => c.ai1 = f,
                _ => c.ai2 = f,
            }
        }
    }
    let c = &c;
    MachineConfig {
        digital_input1: c.di1,
        temp: c.temp,
        jumper1: c.j1,
        jumper2: c.j2,
        analog_input1: c.ai1,
        analog_input2: c.ai2,
        universal_input_output1: c.uio[0],
        universal_input_output2: c.uio[1],
        universal_input_output3: c.uio[2],
        input_fc: c.fc,
        input_fd: c.fd,
        input_fe: c.fe,
        input_ff: c.ff,
    }
}

fn st_id(s: State) -> u8 {
    match s {
        State::Running => 0,
        State::Stopped => 1,
        State::ErrorStopped => 2,
    }
}
fn st_of(i: u8) -> State {
    match i {
        0 => State::Running,
        1 => State::Stopped,
        _ => State::ErrorStopped,
    }
}

/// R-RUN: the loop of the property statement. None = the program does not parse.
pub fn r_run(scn: &Scn) -> Option<(Machine, usize)> {
    let parsed = AsmParser::parse(&scn.program).ok()?;
    let bytecode = Translator::compile(&parsed);
    // "creating a machine with that program and configuration": built here through the public
    // setters one by one, in an order of the harness's own (not through MachineConfig, whose
    // application inside the library is part of what is checked)
    let c = mconfig(scn);
    let mut m = Machine::new(MachineConfig::default());
    m.load(bytecode);
    m.set_universal_input_output3(c.universal_input_output3);
    m.set_analog_input2(c.analog_input2);
    m.set_jumper2(c.jumper2);
    m.set_input_ff(c.input_ff);
    m.set_temp(c.temp);
    m.set_input_fe(c.input_fe);
    m.set_universal_input_output1(c.universal_input_output1);
    m.set_digital_input1(c.digital_input1);
    m.set_jumper1(c.jumper1);
    m.set_input_fd(c.input_fd);
    m.set_analog_input1(c.analog_input1);
    m.set_universal_input_output2(c.universal_input_output2);
    m.set_input_fc(c.input_fc);
    let mut i = 0usize;
    while (i as u64) < budget(scn) {
        if scn.interrupts.iter().any(|c| *c as usize == i) {
            m.trigger_key_interrupt();
        }
        if scn.resets.iter().any(|c| *c as usize == i) {
            m.cpu_reset();
        }
        m.trigger_key_clock();
        i += 1;
        if m.state() != State::Running {
            break;
        }
    }
    Some((m, i))
}

fn budget_class(scn: &Scn, issued: usize) -> u64 {
    if scn.cycles == 0 {
        0
    } else if (issued as u64) < budget(scn) {
        1 // halted before the budget
    } else if scn.cycles == 1 {
        2
    } else {
        3
    }
}

fn in_process(scn: &Scn, ctx: &mut Ctx) -> Result<(), Violation> {
    let rc = RunnerConfigBuilder::default()
        .with_program(&scn.program)
        .with_max_cycles(budget(scn) as usize)
        .with_machine_config(mconfig(scn))
        .with_interrupts(scn.interrupts.iter().map(|c| *c as usize).collect::<Vec<usize>>())
        .with_resets(scn.resets.iter().map(|c| *c as usize).collect::<Vec<usize>>())
        .build()
        .map_err(|e| v("harness", format!("RunnerConfigBuilder: {}", e)))?;
    let want = r_run(scn);
    let got = rc.run();
    ctx.cov.fault_n("K-INT-SCHEDULED", scn.interrupts.len() as u64);
    ctx.cov.fault_n("RST-CPU-SCHEDULED", scn.resets.len() as u64);
    let (res, (wm, wn)) = match (got, want) {
        (Err(_), None) => {
            ctx.cov.probe("parse-error-reported");
            return Ok(());
        }
        (Err(e), Some(_)) => return Err(v("run-result", format!("run() failed ({}) for a program the parser accepts", e))),
        (Ok(_), None) => return Err(v("run-result", "run() succeeded for a program the parser rejects".into())),
        (Ok(r), Some(w)) => (r, w),
    };
    if res.emulated_cycles != wn {
        return Err(v("cycle-count", format!("run() reports {} emulated cycles, stepping the machine by the stated loop issues {}", res.emulated_cycles, wn)));
    }
    if res.machine != wm {
        let (a, b) = (res.machine.registers().content(), wm.registers().content());
        return Err(v(
            "final-state",
            format!(
                "run() ends in a different machine than the stated loop (Machine ==): state {} vs {}, registers {:02X?} vs {:02X?}, FE/FF {:02X}/{:02X} vs {:02X}/{:02X}; if all of these agree the difference is in private state (pending interrupt, pending writes, RAM, ...)",
                state_name(res.machine.state()), state_name(wm.state()), a, b,
                res.machine.bus().output_fe(), res.machine.bus().output_ff(), wm.bus().output_fe(), wm.bus().output_ff()
            ),
        ));
    }
    let dup = {
        let mut x = scn.interrupts.clone();
        x.sort_unstable();
        x.windows(2).any(|w| w[0] == w[1])
    };
    let collide = scn.interrupts.iter().any(|i| scn.resets.contains(i));
    if dup {
        ctx.cov.probe("duplicate-schedule-entry");
    }
    if collide {
        ctx.cov.probe("interrupt-and-reset-same-cycle");
    }
    if scn.interrupts.iter().chain(scn.resets.iter()).any(|c| *c >= budget(scn)) {
        ctx.cov.probe("schedule-entry-beyond-the-end");
    }
    if scn.interrupts.contains(&0) || scn.resets.contains(&0) {
        ctx.cov.probe("schedule-entry-at-cycle-0");
    }
    if scn.interrupts.iter().chain(scn.resets.iter()).any(|c| *c >> 32 != 0) {
        ctx.cov.probe("schedule-entry-beyond-2^32");
    }
    if scn.huge_budget.is_some() {
        ctx.cov.probe("cycle-budget-beyond-32-bits");
    }
    if scn.interrupts.len() + scn.resets.len() > 32 {
        ctx.cov.probe("more-than-32-scheduled-events");
    }
    if scn.program.len() > 65_536 {
        ctx.cov.probe("source-larger-than-64-KiB");
    }
    if scn.volt_text.iter().any(|(_, t)| t.parse::<f32>().map(|f| !f.is_finite()).unwrap_or(false)) {
        ctx.cov.probe("non-finite-voltage-configured");
    }
    ctx.cov.distinct(mix(
        mix(budget_class(scn, wn), mix(scn.interrupts.len().min(3) as u64, scn.resets.len().min(3) as u64)),
        mix(collide as u64, st_id(wm.state()) as u64),
    ));
    // verification: Ok exactly when every stated expectation equals the final value
    let actual = (st_id(wm.state()), wm.bus().output_fe(), wm.bus().output_ff());
    for subset in 0..8u8 {
        for wrong in 0..4u8 {
            // wrong = 0: all stated values match; 1..3: that field (if stated) is made to mismatch
            let mut b = RunExpectationsBuilder::default();
            let mut stated_wrong = false;
            if subset & 1 != 0 {
                let s = if wrong == 1 { (actual.0 + 1) % 3 } else { actual.0 };
                stated_wrong |= wrong == 1;
                b.expect_state(st_of(s));
            }
            if subset & 2 != 0 {
                let x = if wrong == 2 { actual.1.wrapping_add(1) } else { actual.1 };
                stated_wrong |= wrong == 2;
                b.expect_output_fe(x);
            }
            if subset & 4 != 0 {
                let x = if wrong == 3 { actual.2 ^ 0x80 } else { actual.2 };
                stated_wrong |= wrong == 3;
                b.expect_output_ff(x);
            }
            let e = b.build().map_err(|e| v("harness", format!("RunExpectationsBuilder: {}", e)))?;
            let ok = e.verify(&res).is_ok();
            if ok == stated_wrong {
                return Err(v(
                    "verify",
                    format!(
                        "expectation subset {:03b} with {} : verify() says {} (final state {}, FE 0x{:02X}, FF 0x{:02X})",
                        subset,
                        if stated_wrong { format!("field {} mismatching", wrong) } else { "all stated values matching".into() },
                        if ok { "Ok" } else { "Err" },
                        state_name(wm.state()), actual.1, actual.2
                    ),
                ));
            }
            ctx.cov.extra("verify-cases", 1);
        }
    }
    Ok(())
}

fn strip_ansi(s: &str) -> String {
    let mut out = String::new();
    let mut it = s.chars().peekable();
    while let Some(c) = it.next() {
        if c == '\u{1b}' {
            for d in it.by_ref() {
                if d.is_ascii_alphabetic() {
                    break;
                }
            }
        } else {
            out.push(c);
        }
    }
    out
}

fn fmt_byte(v: u8, radix: u8) -> String {
    match radix % 7 {
        1 => format!("0x{:X}", v),
        2 => format!("0b{:b}", v),
        // the value counts, not the spelling: zero padding, lower-case hex digits
        3 => format!("{:04}", v),
        4 => format!("0x{:x}", v),
        5 => format!("0x{:04X}", v),
        6 => format!("0b{:010b}", v),
        _ => format!("{}", v),
    }
}

/// the real CLI binary, built by `./check` from /repo's working tree into sim/target-repo
/// (located relative to this executable, not to VERIF_DIR)
pub fn cli_binary() -> PathBuf {
    let exe = std::env::current_exe().unwrap_or_default();
    // <sim>/target/release/simcheck -> <sim>/target-repo/release/2a-emulator
    match exe.parent().and_then(|p| p.parent()).and_then(|p| p.parent()) {
        Some(sim) => sim.join("target-repo/release/2a-emulator"),
        None => verif_dir().join("sim/target-repo/release/2a-emulator"),
    }
}

struct Sandbox(PathBuf);
impl Sandbox {
    fn new(tag: u64) -> Result<Self, Violation> {
        // unique per process and per call (two concurrent runs must never share a directory)
        static NEXT: std::sync::atomic::AtomicU64 = std::sync::atomic::AtomicU64::new(0);
        let n = NEXT.fetch_add(1, std::sync::atomic::Ordering::Relaxed);
        let p = verif_dir().join("sim/sandbox").join(format!("c12-{}-{}-{:016x}", std::process::id(), n, tag));
        std::fs::create_dir_all(&p).map_err(|e| v("harness", format!("sandbox: {}", e)))?;
        Ok(Sandbox(p))
    }
}
impl Drop for Sandbox {
    fn drop(&mut self) {
        let _ = std::fs::remove_dir_all(&self.0);
    }
}

fn place_file(sb: &Sandbox, scn: &Scn, fault: &Option<FileFault>) -> Result<PathBuf, Violation> {
    let path = sb.0.join("prog.asm");
    match fault {
        None => std::fs::write(&path, scn.program.as_bytes()).map_err(|e| v("harness", format!("write: {}", e)))?,
        Some(FileFault::Missing) => {}
        Some(FileFault::Directory) => std::fs::create_dir_all(&path).map_err(|e| v("harness", format!("mkdir: {}", e)))?,
        Some(FileFault::NonUtf8) => {
            let mut b = scn.program.as_bytes().to_vec();
            b.extend_from_slice(&[0xFF, 0xFE, 0xC0, 0x0A]);
            std::fs::write(&path, b).map_err(|e| v("harness", format!("write: {}", e)))?
        }
    }
    Ok(path)
}

fn spawn(sb: &Sandbox, args: &[String]) -> Result<(i32, String), Violation> {
    let out = std::process::Command::new(cli_binary())
        .args(args)
        .env("NO_COLOR", "1")
        .env("TMPDIR", &sb.0)
        .current_dir(&sb.0)
        .stdin(std::process::Stdio::null())
        .output()
        .map_err(|e| v("harness", format!("cannot spawn {}: {}", cli_binary().display(), e)))?;
    // the wall-clock line is the only non-deterministic output
    let text: String = strip_ansi(&String::from_utf8_lossy(&out.stdout)).lines().filter(|l| !l.starts_with("Time:")).collect::<Vec<_>>().join("\n");
    Ok((out.status.code().unwrap_or(-1), text))
}

fn field<'a>(out: &'a str, key: &str) -> Option<&'a str> {
    out.lines().find_map(|l| l.trim_start().strip_prefix(key).map(|r| r.trim()))
}

fn process(scn: &Scn, radix: &[u8], fault: &Option<FileFault>, bad: &Option<(String, String)>, ctx: &mut Ctx) -> Result<(), Violation> {
    let sb = Sandbox::new(mix(scn.cycles as u64, scn.program.len() as u64 ^ (scn.cfg.fc as u64) << 20 ^ (radix.iter().map(|r| *r as u64).sum::<u64>() << 8)))?;
    let path = place_file(&sb, scn, fault)?;
    let r = |i: usize| radix.get(i).copied().unwrap_or(0);
    let c = &scn.cfg;
    let mut args: Vec<String> = vec!["run".into()];
    let mut flags: Vec<(String, String)> = vec![];
    let byte_flags = [("--fc", c.fc), ("--fd", c.fd), ("--fe", c.fe), ("--ff", c.ff), ("--di1", c.di1)];
    for (i, (k, val)) in byte_flags.iter().enumerate() {
        if *val != 0 || r(i) != 0 {
            flags.push((k.to_string(), fmt_byte(*val, r(i))));
        }
    }
    let vt = |w: u8| scn.volt_text.iter().find(|(x, _)| *x == w).map(|(_, t)| t.clone());
    for (w, k, val) in [(0u8, "--temp", c.temp), (1, "--ai1", c.ai1), (2, "--ai2", c.ai2)] {
        if let Some(t) = vt(w) {
            flags.push((k.into(), t));
        } else if val != 0.0 {
            flags.push((k.into(), format!("{}", val)));
        }
    }
    if let Some((k, val)) = bad {
        flags.push((k.clone(), val.clone()));
    }
    // flags before or after the positionals
    let flags_first = r(7) % 2 == 0;
    // `--flag value` or `--flag=value`
    let eq_form = (r(7) / 2) % 2 == 1;
    let push_flags = |args: &mut Vec<String>| {
        for (k, val) in &flags {
            if eq_form || val.starts_with('-') {
                // (a value with a leading minus is only unambiguous in the `=` form)
                args.push(format!("{}={}", k, val));
            } else {
                args.push(k.clone());
                args.push(val.clone());
            }
        }
        for (k, on) in [("--j1", c.j1), ("--j2", c.j2), ("--uio1", c.uio[0]), ("--uio2", c.uio[1]), ("--uio3", c.uio[2])] {
            if on {
                args.push(k.to_string());
            }
        }
        for i in &scn.interrupts {
            args.push("--interrupt".into());
            args.push(i.to_string());
        }
        for x in &scn.resets {
            args.push("--reset".into());
            args.push(x.to_string());
        }
    };
    if flags_first {
        push_flags(&mut args);
    }
    // the child runs inside the sandbox directory: a relative path keeps argv reproducible
    let _ = &path;
    args.push("prog.asm".to_string());
    args.push(budget(scn).to_string());
    if !flags_first {
        push_flags(&mut args);
    }
    if let Some((s, fe, ff)) = &scn.expect {
        args.push("verify".into());
        if let Some(s) = s {
            args.push("--state".into());
            args.push(["running", "stopped", "error"][*s as usize % 3].into());
        }
        if let Some(x) = fe {
            args.push("--fe".into());
            args.push(fmt_byte(*x, r(5)));
        }
        if let Some(x) = ff {
            args.push("--ff".into());
            args.push(fmt_byte(*x, r(6)));
        }
    }
    let (code, out) = spawn(&sb, &args)?;
    ctx.cov.fault("CLI-SPAWN");
    let unparsable = scn.volt_text.iter().any(|(_, t)| t.parse::<f32>().is_err());
    if bad.is_some() || unparsable {
        ctx.cov.fault("ARG-REJECTED");
        // the property speaks about accepted configurations; a rejected one must not produce a run report
        if code == 0 || out.contains("Cycles:") {
            return Err(v("cli-args", format!("argv {:?}: a malformed value was accepted (exit {}, output {:?})", args, code, out)));
        }
        return Ok(());
    }
    let want = r_run(scn);
    if let Some(f) = fault {
        ctx.cov.fault(match f {
            FileFault::Missing => "FILE-MISSING",
            FileFault::Directory => "FILE-IS-DIRECTORY",
            FileFault::NonUtf8 => "FILE-NON-UTF8",
        });
        if code == 0 {
            return Err(v("exit-status", format!("argv {:?}: exit status 0 although the program file cannot be read", args)));
        }
        return Ok(());
    }
    let (wm, wn) = match want {
        None => {
            ctx.cov.fault("FILE-PARSE-ERROR");
            if code == 0 {
                return Err(v("exit-status", format!("argv {:?}: exit status 0 although the program does not parse", args)));
            }
            return Ok(());
        }
        Some(w) => w,
    };
    // printed values
    // (first token of each field: a tree may add explanatory text behind the value)
    let cyc = field(&out, "Cycles:").and_then(|s| s.split_whitespace().next()).unwrap_or("");
    let want_cyc = format!("{}/{}", wn, budget(scn));
    if cyc != want_cyc {
        return Err(v("cli-output", format!("argv {:?}: printed 'Cycles: {}', stepping the machine gives {}", args, cyc, want_cyc)));
    }
    let st = field(&out, "State:").and_then(|s| s.split_whitespace().next()).unwrap_or("");
    let want_st = match wm.state() {
        State::Running => "Running",
        State::Stopped => "Stopped",
        State::ErrorStopped => "Error",
    };
    if st != want_st {
        return Err(v("cli-output", format!("argv {:?}: printed 'State: {}', stepping the machine gives {}", args, st, want_st)));
    }
    let fe = field(&out, "Output:").and_then(|s| s.strip_prefix("FE:")).and_then(|s| s.split_whitespace().next()).unwrap_or("");
    let ff = field(&out, "FF:").and_then(|s| s.split_whitespace().next()).unwrap_or("");
    if fe != wm.bus().output_fe().to_string() || ff != wm.bus().output_ff().to_string() {
        return Err(v("cli-output", format!("argv {:?}: printed FE {} / FF {}, stepping the machine gives {} / {}", args, fe, ff, wm.bus().output_fe(), wm.bus().output_ff())));
    }
    // exit status
    let verified = match &scn.expect {
        None => true,
        Some((s, fe, ff)) => s.map(|s| s == st_id(wm.state())).unwrap_or(true) && fe.map(|x| x == wm.bus().output_fe()).unwrap_or(true) && ff.map(|x| x == wm.bus().output_ff()).unwrap_or(true),
    };
    if (code == 0) != verified {
        return Err(v("exit-status", format!("argv {:?}: exit status {} but the stated expectations {} the final machine (state {}, FE {}, FF {})", args, code, if verified { "match" } else { "do not match" }, want_st, wm.bus().output_fe(), wm.bus().output_ff())));
    }
    ctx.cov.distinct(mix(mix(7, budget_class(scn, wn)), mix(scn.expect.is_some() as u64 * 2 + verified as u64, st_id(wm.state()) as u64)));
    if !verified {
        ctx.cov.probe("cli-verification-failed");
    }
    Ok(())
}

fn verify_cmd(scn: &Scn, fault: &Option<FileFault>, ctx: &mut Ctx) -> Result<(), Violation> {
    let sb = Sandbox::new(mix(99, scn.program.len() as u64 ^ ((scn.cfg.fd as u64) << 32)))?;
    let path = place_file(&sb, scn, fault)?;
    let _ = &path;
    let (code, out) = spawn(&sb, &["verify".to_string(), "prog.asm".to_string()])?;
    ctx.cov.fault("CLI-VERIFY-SPAWN");
    let accepts = fault.is_none() && AsmParser::parse(&scn.program).is_ok();
    let says_valid = out.contains("is valid");
    if (code == 0) != accepts || says_valid != accepts {
        return Err(v("verify-command", format!("`2a-emulator verify`: exit status {} / 'is valid' printed: {} for a file the parser {}", code, says_valid, if accepts { "accepts" } else { "cannot accept" })));
    }
    ctx.cov.distinct(mix(8, accepts as u64));
    Ok(())
}

fn sched(rng: &mut Rng, cycles: u32) -> Vec<u64> {
    sched32(rng, cycles).into_iter().map(|c| if rng.chance(1, 12) { c as u64 + ((1 + rng.below(3)) << 32) } else if rng.chance(1, 40) { u64::MAX - rng.below(3) } else { c as u64 }).collect()
}

fn sched32(rng: &mut Rng, cycles: u32) -> Vec<u32> {
    if rng.chance(1, 15) {
        // a long schedule (dozens of entries, unsorted, with repeats)
        let n = 33 + rng.below(60);
        return (0..n).map(|_| rng.below(cycles.max(1) as u64 + 1) as u32 % 200).collect();
    }
    let n = match rng.below(6) {
        0..=2 => 0,
        3 | 4 => 1 + rng.below(3),
        _ => 4 + rng.below(5),
    };
    let mut out = vec![];
    for _ in 0..n {
        out.push(match rng.below(8) {
            0 => 0,
            1 => cycles,
            2 => cycles.saturating_add(1 + rng.below(50) as u32),
            3 => cycles.saturating_sub(1),
            4 if !out.is_empty() => out[rng.usize(out.len())],
            _ => rng.below(cycles.max(1) as u64 + 1) as u32,
        });
    }
    out
}

fn gen_cfg(rng: &mut Rng) -> Cfg {
    if rng.chance(1, 4) {
        // sparse configuration: everything at its default except one or two fields
        let mut c = Cfg::default();
        for _ in 0..1 + rng.below(2) {
            match rng.below(11) {
                0 => c.fc = 1 + rng.below(255) as u8,
                1 => c.fd = 1 + rng.below(255) as u8,
                2 => c.fe = 1 + rng.below(255) as u8,
                3 => c.ff = 1 + rng.below(255) as u8,
                4 => c.di1 = 1 + rng.below(255) as u8,
                5 => c.temp = (1 + rng.below(500)) as f32 / 100.0,
                6 => c.ai1 = (1 + rng.below(500)) as f32 / 100.0,
                7 => c.ai2 = (1 + rng.below(500)) as f32 / 100.0,
                8 => c.j1 = true,
                9 => c.j2 = true,
                _ => c.uio[rng.usize(3)] = true,
            }
        }
        return c;
    }
    let volt = |rng: &mut Rng| -> f32 {
        match rng.below(4) {
            0 => 0.0,
            1 => rng.below(600) as f32 / 100.0,
            2 => 7.5,
            _ => rng.below(50) as f32 / 10.0,
        }
    };
    Cfg {
        fc: if rng.bool() { rng.u8() } else { rng.below(4) as u8 },
        fd: if rng.bool() { rng.u8() } else { rng.below(4) as u8 },
        fe: if rng.bool() { rng.u8() } else { rng.below(4) as u8 },
        ff: if rng.bool() { rng.u8() } else { rng.below(4) as u8 },
        di1: if rng.bool() { rng.u8() } else { 0 },
        temp: volt(rng),
        ai1: volt(rng),
        ai2: volt(rng),
        j1: rng.bool(),
        j2: rng.bool(),
        uio: [rng.bool(), rng.bool(), rng.bool()],
    }
}

fn process_runs(tier: Tier) -> u64 {
    match tier {
        Tier::Quick => 3_000,
        Tier::Thorough => 150_000,
    }
}

impl Check for C12 {
    type Scn = Scn;
    fn id(&self) -> &'static str {
        "C12"
    }
    fn runs(&self, tier: Tier) -> u64 {
        process_runs(tier)
            + match tier {
                Tier::Quick => 60_000,
                Tier::Thorough => 3_000_000,
            }
    }
    fn generate(&self, rng: &mut Rng, tier: Tier, idx: u64) -> Scn {
        let broken = rng.chance(1, 12);
        let program = if broken { textgen::broken_program(rng) } else { textgen::program(rng).0 };
        // the same source in another byte-level dress (what the parser makes of it is the reference;
        // tool and library must agree on it)
        let program = if rng.chance(1, 10) {
            match rng.below(6) {
                0 => program.replace('\n', "\r\n"),
                1 => format!("\u{FEFF}{}", program),
                2 => format!("{}\0", program),
                3 => program.replacen('\n', "\n\x0C\n", 1),
                4 => program.replace("    ", "\t"),
                _ => format!("{}\n\n\n   \t  ", program),
            }
        } else {
            program
        };
        let program = if !broken && rng.chance(1, 60) {
            // a source file of 70-200 KB: comment lines in front of and behind the code
            let mut big = String::new();
            let mut lines = program.lines();
            if let Some(first) = lines.next() {
                big.push_str(first);
                big.push('\n');
            }
            let pad = 70_000 + rng.usize(130_000);
            while big.len() < pad {
                big.push_str("; padding padding padding padding padding padding padding padding padding\n");
            }
            for l in lines {
                big.push_str(l);
                big.push('\n');
            }
            big
        } else {
            program
        };
        let program = if !broken && rng.chance(1, 8) {
            // the board status and the input port mirrored into the outputs
            "#! mrasm\n    LD R0, (0xF1)\n    ST (0xFE), R0\n    LD R1, (0xF0)\n    LD R2, (0xF3)\n    OR R1, R2\n    ST (0xFF), R1\n    STOP\n".to_string()
        } else {
            program
        };
        let cfg = gen_cfg(rng);
        let mut scn = Scn { program, cfg, cycles: 0, interrupts: vec![], resets: vec![], expect: None, layer: Layer::InProcess, volt_text: vec![], huge_budget: None };
        if rng.chance(1, 4) {
            let dac = 1 + rng.below(250) as u32;
            if !broken && rng.bool() {
                // a program that makes the board status (comparators, jumpers, UIO) visible in the
                // outputs, after setting both DACs to a seeded step
                scn.program = format!("#! mrasm\n    LD R2, {}\n    ST (0xF0), R2\n    ST (0xF1), R2\n    LD R0, (0xF1)\n    ST (0xFE), R0\n    LD R1, (0xF3)\n    ST (0xFF), R1\n    STOP\n", dac);
                // ... and a voltage within a few millivolts of that step, spelled with 3-4 decimals
                let mv = dac as i64 * 10 + rng.below(11) as i64 - 5;
                let t = if rng.bool() { format!("{}.{:03}", mv / 1000, mv % 1000) } else { format!("{}.{:03}{}", mv / 1000, mv % 1000, rng.below(10)) };
                if mv >= 0 {
                    scn.volt_text.push((rng.below(3) as u8, t));
                }
            }
            for _ in 0..1 + rng.below(2) {
                let t = *rng.pick(&["nan", "NaN", "inf", "-inf", "infinity", "1e40", "-1e40", "-0", "5.0000001", "4.9999", "1e-50", "+2.5", ".5", "5.", "2.55", "-nan"]);
                let w = rng.below(3) as u8;
                if !scn.volt_text.iter().any(|(x, _)| *x == w) {
                    scn.volt_text.push((w, t.to_string()));
                }
            }
        }
        // budget: 0, 1, small, around the halt time +-2, large
        scn.cycles = match rng.below(8) {
            0 => 0,
            1 => 1,
            2 | 3 => 2 + rng.below(60) as u32,
            4 | 5 => {
                scn.cycles = 6_000;
                let h = r_run(&scn).map(|(_, n)| n as u32).unwrap_or(10);
                (h + rng.below(5) as u32).saturating_sub(2)
            }
            6 => 100 + rng.below(900) as u32,
            _ => 2_000 + rng.below(4_000) as u32,
        };
        scn.interrupts = sched(rng, scn.cycles);
        scn.resets = sched(rng, scn.cycles);
        if rng.chance(1, 5) && !scn.interrupts.is_empty() {
            scn.resets.push(scn.interrupts[0]); // both kinds at the same cycle
        }
        if scn.interrupts.len() > 30 {
            // several collisions spread over a long schedule
            for k in 0..3 {
                let c = scn.interrupts[(k * 7) % scn.interrupts.len()];
                let at = rng.usize(scn.resets.len() + 1);
                scn.resets.insert(at, c);
            }
        }
        if rng.chance(1, 14) {
            // budgets beyond 32 bits, for runs that halt on their own under this schedule
            let saved = scn.cycles;
            scn.cycles = 20_000;
            let halts = r_run(&scn).map(|(_, n)| n < 20_000).unwrap_or(false);
            scn.cycles = saved;
            if halts {
                scn.huge_budget = Some(*rng.pick(&[u64::MAX, u64::MAX, u64::MAX - 1, 1 << 32, (1 << 32) + 3, 1 << 63, (1 << 32) - 1]));
            }
        }
        if idx < process_runs(tier) {
            if rng.chance(1, 8) {
                scn.layer = Layer::VerifyCmd { file_fault: if rng.chance(1, 4) { Some(rng.pick(&[FileFault::Missing, FileFault::Directory, FileFault::NonUtf8]).clone()) } else { None } };
                return scn;
            }
            // expectations: subset x matching / mismatching
            if rng.chance(2, 3) {
                let fin = r_run(&scn);
                let (s, fe, ff) = fin.map(|(m, _)| (st_id(m.state()), m.bus().output_fe(), m.bus().output_ff())).unwrap_or((0, 0, 0));
                let subset = rng.below(8) as u8;
                let wrong = rng.below(5) as u8; // 0,4: all match
                scn.expect = Some((
                    if subset & 1 != 0 { Some(if wrong == 1 { (s + 1) % 3 } else { s }) } else { None },
                    if subset & 2 != 0 { Some(if wrong == 2 { fe.wrapping_add(1) } else { fe }) } else { None },
                    if subset & 4 != 0 { Some(if wrong == 3 { ff ^ 1 } else { ff }) } else { None },
                ));
            }
            let bad_arg = if rng.chance(1, 10) {
                let k = rng.pick(&["--fc", "--fd", "--fe", "--ff", "--di1"]).to_string();
                let val = rng.pick(&["256", "0x100", "0b100000000", "0x1FF", "-1", "0b102", "0xG1", "1e2", "", "0X10"]).to_string();
                Some((k, val))
            } else {
                None
            };
            let file_fault = if bad_arg.is_none() && rng.chance(1, 10) { Some(rng.pick(&[FileFault::Missing, FileFault::Directory, FileFault::NonUtf8]).clone()) } else { None };
            scn.layer = Layer::Process { radix: (0..8).map(|_| rng.below(7) as u8).collect(), file_fault, bad_arg };
            // the CLI takes voltages as decimal text: keep them exactly representable in that round trip
            scn.cfg.temp = (scn.cfg.temp * 100.0).round() / 100.0;
            scn.cfg.ai1 = (scn.cfg.ai1 * 100.0).round() / 100.0;
            scn.cfg.ai2 = (scn.cfg.ai2 * 100.0).round() / 100.0;
        }
        scn
    }
    fn execute(&self, scn: &Scn, ctx: &mut Ctx) -> Result<(), Violation> {
        let _ = Stim::KeyInt;
        match &scn.layer {
            Layer::InProcess => in_process(scn, ctx),
            Layer::Process { radix, file_fault, bad_arg } => process(scn, radix, file_fault, bad_arg, ctx),
            Layer::VerifyCmd { file_fault } => verify_cmd(scn, file_fault, ctx),
        }
    }
    fn shrink(&self, scn: &Scn, _v: &Violation) -> Vec<Scn> {
        let mut out = vec![];
        for (k, list) in [(0, &scn.interrupts), (1, &scn.resets)] {
            if !list.is_empty() {
                let mut c = scn.clone();
                if k == 0 { c.interrupts.clear() } else { c.resets.clear() }
                out.push(c);
                for i in 0..list.len() {
                    let mut c = scn.clone();
                    if k == 0 { c.interrupts.remove(i); } else { c.resets.remove(i); }
                    out.push(c);
                }
            }
        }
        if scn.cfg != Cfg::default() {
            let mut c = scn.clone();
            c.cfg = Cfg::default();
            out.push(c);
            for i in 0..11 {
                let mut c = scn.clone();
                match i {
                    0 => c.cfg.fc = 0, 1 => c.cfg.fd = 0, 2 => c.cfg.fe = 0, 3 => c.cfg.ff = 0, 4 => c.cfg.di1 = 0,
                    5 => c.cfg.temp = 0.0, 6 => c.cfg.ai1 = 0.0, 7 => c.cfg.ai2 = 0.0, 8 => c.cfg.j1 = false, 9 => c.cfg.j2 = false,
                    _ => c.cfg.uio = [false; 3],
                }
                if c.cfg != scn.cfg {
                    out.push(c);
                }
            }
        }
        if scn.expect.is_some() {
            let mut c = scn.clone();
            c.expect = None;
            out.push(c);
        }
        for n in [scn.cycles / 2, scn.cycles.saturating_sub(1)] {
            if n < scn.cycles {
                let mut c = scn.clone();
                c.cycles = n;
                out.push(c);
            }
        }
        // drop source lines (keeps the header)
        let lines: Vec<&str> = scn.program.lines().collect();
        for i in 1..lines.len() {
            let mut l = lines.clone();
            l.remove(i);
            let mut c = scn.clone();
            c.program = l.join("\n");
            out.push(c);
        }
        out
    }
    fn rule(&self) -> String {
        "Generated mrasm source programs (addition, board/input mirror, interrupt/board status mirror (0xF9, 0xF3), counters, key-interrupt programs, error halts, random straight-line code, broken sources) x machine configurations x cycle budgets {0, 1, small, halt time +-2, large, and for halting runs usize::MAX, 2^63, 2^32 +- 1} x interrupt / reset schedules with duplicates, cycle 0, entries at and beyond the end, entries >= 2^32 (also congruent to cycles inside the run modulo 2^32), both kinds at the same cycle; voltages also as literal spellings (nan, inf, 1e40, -0, ...). In-process: RunnerConfig::run vs the stated loop (full Machine equality, cycle count) and verify() for all 8 expectation subsets x matching / one mismatching value. Process: the real binary with every byte flag in decimal/0x/0b (also zero-padded and lower-case hex spellings), `--flag value` or `--flag=value`, flags before or after the positionals, repeated --interrupt/--reset, verify sub-command, malformed values, and file faults (missing, directory, non-UTF-8, syntax error, undefined label); stdout fields and exit status compared. distinct = distinct (budget class, #interrupts, #resets, collision?, final state, layer, expectation outcome) tuples.".into()
    }
    fn assumptions(&self) -> Vec<String> {
        vec![
            "R-RUN is the loop spelled out in the property statement, executed over a second real Machine that is built with Machine::new + load + the public setters in the harness's own order, not through MachineConfig (the machine's own correctness is C01's business); parser and translator are real components here".into(),
            "argv that structopt itself rejects is only checked for 'no run report and non-zero exit'".into(),
            "programs come from the subset on which parse -> compile -> load is total (C06 is not claimed)".into(),
        ]
    }
    fn components(&self) -> Value {
        json!({
            "RunnerConfig::run, RunExpectations::verify, parser, translator, Machine": "real (in-process)",
            "args.rs (structopt), runner/mod.rs glue, main.rs exit path": "real (subprocess: /repo's 2a-emulator built from the working tree into /verif/sim/target-repo)",
            "file system": "real files in a per-run sandbox directory under /verif/sim/sandbox",
            "R-RUN loop, argv generator, PRNG": "harness",
        })
    }
    fn sample(&self, s: &Scn) -> Value {
        json!({"program": s.program, "cfg": s.cfg, "cycles": s.cycles, "interrupts": s.interrupts, "resets": s.resets, "expect": s.expect, "layer": s.layer})
    }
    fn must_fire(&self, _tier: Tier) -> Vec<String> {
        ["schedule-entry-beyond-2^32", "non-finite-voltage-configured", "K-INT-SCHEDULED", "RST-CPU-SCHEDULED", "duplicate-schedule-entry", "interrupt-and-reset-same-cycle", "schedule-entry-beyond-the-end", "schedule-entry-at-cycle-0", "parse-error-reported", "CLI-SPAWN", "CLI-VERIFY-SPAWN", "ARG-REJECTED", "FILE-MISSING", "FILE-IS-DIRECTORY", "FILE-NON-UTF8", "FILE-PARSE-ERROR", "cli-verification-failed"]
            .iter()
            .map(|s| s.to_string())
            .collect()
    }
}
