//! C09: micro-sequencer control flow is well-formed; defined opcodes always complete.
//! Decided by execution: every first byte (and every second byte of the two-byte group) x 16 flag
//! states x {no key press, flip-flop set} x seeded data states is run on the real machine from an
//! instruction boundary, with a per-edge control-word monitor (public `Signals`) and the R-COST
//! bound as liveness oracle. The complete control-state graph is NOT constructed (that would be
//! model checking); branch-outcome probes show which conditional micro-branches were taken.
use crate::driver::{mix, Check, Ctx, Tier, Violation};
use crate::gen;
use crate::lockstep::{Compare, Ended, Event, LockStep, STALL_LIMIT};
use crate::prng::Rng;
use crate::sut::{control_word, Stim};
use emulator_2a_lib::machine::{Machine, MicroprogramRam, State};
use serde::{Deserialize, Serialize};
use serde_json::{json, Value};
use std::sync::OnceLock;

pub struct C09;

#[derive(Clone, Debug, Serialize, Deserialize)]
pub struct Scn {
    pub b1: u8,
    pub b2: Option<u8>,
    pub seed: u64,
    pub k: u32,
    /// restrict to one (flag nibble, key pressed, data index) case
    pub only: Option<(u8, bool, u32)>,
}

fn w(i: usize) -> u32 {
    MicroprogramRam::CONTENT[i].bits()
}

/// page-end words: (fetch, int)
const PAGE_END: [(u16, u16); 16] = [
    (0x06, 0x07), (0x28, 0x29), (0x4E, 0x4F), (0x66, 0x67), (0x86, 0x87), (0xAC, 0xAD), (0xC4, 0xC5), (0xE4, 0xE5),
    (0x106, 0x107), (0x12A, 0x12B), (0x148, 0x149), (0x16A, 0x16B), (0x18A, 0x18B), (0x1AA, 0x1AB), (0, 0), (0x1E6, 0x1E6),
];

/// The micro-addresses the routine of a first opcode byte may visit (hand-written from the labels
/// of the control-store listing, DESIGN.md Appendix A).
fn routine_first(ir: u8) -> Vec<u16> {
    let s = ((ir >> 2) & 3) as u16;
    let mut v: Vec<u16> = match ir {
        0x00..=0x03 => vec![0x00],
        0x04..=0x07 => vec![0x01],
        0x08..=0x0B => vec![0x02, 0x04],
        0x0C..=0x0F => vec![0x03, 0x05],
        0x10..=0x13 => vec![0x20, 0x24, 0x25],
        0x14..=0x17 => vec![0x21, 0x26, 0x27],
        0x18..=0x1B => vec![0x22, 0x24, 0x25],
        0x1C..=0x1F => vec![0x23, 0x27],
        0x20..=0x23 => vec![0x40, 0x44, 0x45],
        0x24..=0x27 => vec![0x41, 0x44, 0x45],
        0x28..=0x2B => vec![0x42, 0x46, 0x47, 0x48, 0x49],
        0x2C..=0x2F => vec![0x43, 0x4A, 0x4B, 0x4C],
        0x30..=0x33 => vec![0x60],
        0x34..=0x37 => vec![0x61, 0x64],
        0x38..=0x3B => vec![0x62],
        0x3C..=0x3F => vec![0x63],
        0x40..=0x43 => vec![0x80],
        0x44..=0x47 => vec![0x81],
        0x48..=0x4B => vec![0x82],
        0x4C..=0x4F => vec![0x83],
        0x50..=0x53 => vec![0xA0],
        0x54..=0x57 => vec![0xA1, 0xA4, 0xA5],
        0x58..=0x5B => vec![0xA2, 0xA6, 0xA7, 0xAB],
        0x5C..=0x5F => vec![0xA3, 0xA8, 0xA9, 0xAA, 0xAB],
        0x60..=0x6F => vec![0xC0 + s],
        0x70..=0x7F => vec![0xE0 + s],
        0x80..=0x8F => vec![0x100 + s, 0x104, 0x105],
        0x90..=0x9F => vec![0x120 + s, 0x124, 0x125, 0x126, 0x127, 0x128],
        0xA0..=0xAF => vec![0x140 + s, 0x144, 0x145, 0x146],
        0xB0..=0xBF => vec![0x160 + s, 0x164, 0x165, 0x166, 0x167, 0x168, 0x169],
        0xC0..=0xCF => vec![0x180 + s, 0x184, 0x185, 0x186, 0x187, 0x188, 0x189, 0x18C],
        0xD0..=0xDF => vec![0x1A0 + s, 0x1A4, 0x1A5, 0x1A6, 0x1A7, 0x1A8, 0x1A9],
        0xE0..=0xEF => vec![0x1C0 + s],
        _ => match s {
            0 => vec![0x1E0],
            1 => vec![0x1E1],
            2 => vec![0x1E2, 0x1E5],
            _ => vec![0x1E3, 0x1E4, 0x1E5],
        },
    };
    let (f, i) = PAGE_END[(ir >> 4) as usize];
    if ir >> 4 != 0xE {
        v.push(f);
        v.push(i);
    }
    v
}

/// ... and of a second opcode byte of the two-byte group
fn routine_second(ir: u8) -> Vec<u16> {
    let m = ((ir >> 2) & 3) as usize;
    let page = (ir >> 4) as u16;
    let mut v: Vec<u16> = match ir >> 4 {
        0 => (0x10 + m as u16..=0x17).collect(),
        1 => [vec![0x30], vec![0x31], vec![0x32, 0x35], vec![0x33, 0x34, 0x35]][m].clone(),
        2 => [vec![0x50, 0x56, 0x57], vec![0x51, 0x56, 0x57], vec![0x52, 0x55, 0x56, 0x57], vec![0x53, 0x54, 0x55, 0x56, 0x57]][m].clone(),
        3 => [vec![0x70, 0x76, 0x77, 0x78], vec![0x71, 0x76, 0x77, 0x78], vec![0x72, 0x75, 0x76, 0x77, 0x78], vec![0x73, 0x74, 0x75, 0x76, 0x77, 0x78]][m].clone(),
        4 => vec![0x90 + m as u16],
        5 => [vec![0xB0, 0xB4, 0xB5], vec![0xB1, 0xB6, 0xB7], vec![0xB2, 0xB8, 0xB9, 0xBA], vec![0xB3, 0xBB, 0xBC, 0xBD, 0xBE]][m].clone(),
        6 => [vec![0xD0, 0xD4, 0xD5, 0xD6], vec![0xD1, 0xD7, 0xD8, 0xD9], vec![0xD2, 0xCC, 0xCD, 0xCE, 0xCF], vec![0xD3, 0xDA, 0xDB, 0xDC, 0xDD, 0xDE, 0xDF]][m].clone(),
        _ => vec![page * 32 + 16 + m as u16],
    };
    if (1..=6).contains(&(ir >> 4)) {
        let (f, i) = PAGE_END[(ir >> 4) as usize];
        v.push(f);
        v.push(i);
    }
    v
}

struct Tables {
    first: Vec<Vec<u32>>,
    second: Vec<Vec<u32>>,
    entry: Vec<u32>,
}

fn tables() -> &'static Tables {
    static T: OnceLock<Tables> = OnceLock::new();
    T.get_or_init(|| Tables {
        first: (0..=255u8).map(|b| routine_first(b).into_iter().map(|i| w(i as usize)).collect()).collect(),
        second: (0..=255u8).map(|b| routine_second(b).into_iter().map(|i| w(i as usize)).collect()).collect(),
        entry: (0x10..=0x17).map(w).collect(),
    })
}

/// Per-edge control-word monitor (uses only `Signals` and `word()`).
#[derive(Clone, Copy)]
pub struct WordMon {
    second: bool,
    entry: bool,
    prev: u32,
    /// no interrupt was ever requested in this run: the interrupt entry sequence must not be visited
    pub no_request: bool,
}

impl WordMon {
    pub fn new(m: &Machine) -> Self {
        WordMon { second: false, entry: false, prev: control_word(m), no_request: false }
    }
    pub fn reset(&mut self, m: &Machine) {
        let nr = self.no_request;
        *self = WordMon::new(m);
        self.no_request = nr;
    }
    pub fn after_edge(&mut self, m: &Machine) -> Result<(), (&'static str, String)> {
        let cur = control_word(m);
        let ir = m.word().bits();
        if cur == 0 {
            return Err(("unprogrammed-word", format!("the sequencer reached an unprogrammed (all-zero) control word with IR=0x{:02X}", ir)));
        }
        if cur != self.prev {
            if self.prev == w(0x1E6) {
                self.second = true;
                self.entry = false;
            } else if self.prev == w(0x06) {
                self.second = false;
                self.entry = false;
            } else if self.prev == w(0x29) || self.prev == w(0x07) {
                self.entry = true;
                self.second = false;
            }
        }
        self.prev = cur;
        if self.entry && self.no_request {
            return Err((
                "left-routine",
                format!("the interrupt entry sequence (control word {:07X}) is running although no interrupt was ever requested (IR=0x{:02X})", cur, ir),
            ));
        }
        let t = tables();
        let ok = if self.entry {
            t.entry.contains(&cur)
        } else if self.second {
            t.second[ir as usize].contains(&cur)
        } else {
            t.first[ir as usize].contains(&cur)
        };
        if !ok {
            return Err((
                "left-routine",
                format!(
                    "control word {:07X} is not part of the routine of IR=0x{:02X} ({})",
                    cur,
                    ir,
                    if self.entry { "interrupt entry" } else if self.second { "second opcode" } else { "first opcode" }
                ),
            ));
        }
        Ok(())
    }
}

fn v(oracle: &str, d: String) -> Violation {
    Violation::new("C09", oracle, d)
}

impl C09 {
    fn case(&self, scn: &Scn, f: u8, key: bool, di: u32, ctx: &mut Ctx) -> Result<(), Violation> {
        let mut rng = Rng::new(mix(scn.seed, di as u64));
        let setup = gen::form_case_setup(&mut rng, scn.b1, scn.b2, f);
        let mut ls = LockStep::new("C09", &setup);
        ls.compare = Compare::Off;
        ls.check_cost = true;
        ls.lenient = true;
        ls.check_reset = false;
        let mut mon = WordMon::new(&ls.sut);
        mon.no_request = !key;
        let label = |e: Violation| -> Violation {
            let mut e = e;
            e.detail = format!("case f=0x{:X} key={} data={}: {}", f, key, di, e.detail);
            e
        };
        // first boundary: fetch of the instruction under test
        let mut boundaries = 0;
        let mut n = 0i64;
        let mut pressed = false;
        // "from reset": in a third of the cases a CPU reset lands at a seeded edge inside the
        // instruction under test (stale instruction register / micro-address would show)
        let reset_at: Option<i64> = if rng.chance(1, 3) { Some(rng.below(14) as i64) } else { None };
        let mut first_b_edge: Option<i64> = None;
        let mut reset_done = false;
        // in half of the key cases a second press lands on a seeded edge inside the instruction under
        // test or inside the interrupt entry that follows it (also on the `int:` word itself)
        let press2_at: Option<i64> = if key && rng.bool() { Some(rng.below(30) as i64) } else { None };
        let mut press2_done = false;
        let (mut continued, mut after_continue) = (false, false);
        loop {
            if let (Some(off), Some(b0)) = (reset_at, first_b_edge) {
                if !reset_done && ls.edge >= b0 + off && ls.ended.is_none() {
                    reset_done = true;
                    ls.stim(&Stim::CpuReset).map_err(label)?;
                    mon.reset(&ls.sut);
                    ctx.cov.fault("RST-CPU");
                    boundaries = 0;
                }
            }
            if let (Some(off), Some(b0)) = (press2_at, first_b_edge) {
                if !press2_done && pressed && ls.edge >= b0 + off && ls.ended.is_none() {
                    press2_done = true;
                    ls.stim(&Stim::KeyInt).map_err(label)?;
                    ctx.cov.fault("K-INT-2");
                    let w = control_word(&ls.sut);
                    if PAGE_END.iter().any(|(_, i)| super::c09::w(*i as usize) == w) {
                        ctx.cov.probe("second-press-on-an-int-word");
                    }
                }
            }
            let ev = ls.tick().map_err(label)?;
            ctx.cov.sim_edges += 1;
            n += 1;
            if let Err((o, d)) = mon.after_edge(&ls.sut) {
                return Err(label(v(o, format!("edge={} {}", ls.edge, d))));
            }
            // control-state coverage: (IR byte, control word, FR nibble, flip-flop)
            ctx.cov.distinct(mix(
                mix(ls.sut.word().bits() as u64, control_word(&ls.sut) as u64),
                (ls.sut.registers().content()[4] & 0xF) as u64 * 2 + ls.sut.signals().interrupt_flipflop_1() as u64,
            ));
            // branch-outcome probes of the conditional control words
            let s = ls.sut.signals();
            if !s.mac2() && (s.mac1() || s.mac0()) {
                ctx.cov.set("conditional-word-x-outcome", mix(control_word(&ls.sut) as u64, s.am1() as u64));
            }
            if after_continue {
                let cur = control_word(&ls.sut);
                if !tables().first[0x01].contains(&cur) {
                    return Err(label(v("left-routine", format!("edge={} after STOP and CONTINUE the sequencer runs control word {:07X}, which is not part of the routine of the fetched opcode 0x01 (IR=0x{:02X})", ls.edge, cur, ls.sut.word().bits()))));
                }
                // the routine ends with the fetch word of page 0 or, with a request pending, its `int:` word
                if ev != Event::None || cur == w(0x06) || cur == w(0x07) {
                    after_continue = false;
                    ctx.cov.probe("stop-routine-completed-after-continue");
                }
            }
            match ev {
                Event::Boundary => {
                    boundaries += 1;
                    if first_b_edge.is_none() {
                        first_b_edge = Some(ls.edge);
                    }
                    if boundaries == 1 && key && !pressed {
                        // enable the key edge (second-party bus write at the boundary) and press
                        ls.stim(&Stim::BusWrite(0xF9, 1)).map_err(label)?;
                        ls.stim(&Stim::KeyInt).map_err(label)?;
                        pressed = true;
                        ctx.cov.fault("K-INT");
                    }
                    if boundaries >= 3 {
                        break;
                    }
                }
                Event::Halt => {
                    ctx.cov.probe("halted");
                    if ls.sut.state() == State::Stopped && !continued && !mon.second && !mon.entry {
                        // a fetched STOP is an instruction like any other: after CONTINUE the sequencer
                        // must run the routine of the fetched 0x01 (one NOP word and the fetch), not
                        // whatever a stale instruction register selects (a 0x01 loaded as the second byte of
                        // a two-byte instruction also stops the machine: that is not a fetched STOP)
                        continued = true;
                        after_continue = true;
                        ls.stim(&Stim::Continue).map_err(label)?;
                        ctx.cov.fault("CONT");
                        continue;
                    }
                    break;
                }
                Event::Hung => {
                    ctx.cov.probe("undefined-opcode-hangs");
                    // sits in a self-looping word: further edges change nothing
                    let g = ls.sut.clone();
                    ls.sut.trigger_key_clock();
                    if ls.sut != g {
                        return Err(label(v("hang-not-fixed-point", format!("edge={} a non-completing opcode (IR=0x{:02X}) keeps changing the machine", ls.edge, ls.sut.word().bits()))));
                    }
                    // liveness claim of the statement, checked here independently of R-ISA
                    let first = scn.b1;
                    let ir = ls.sut.word().bits();
                    if boundaries == 1 && !reset_done {
                        let legit = gen::undefined_first(first) || (first >= 0xF0 && !gen::defined_second(ir));
                        if !legit {
                            return Err(label(v("defined-opcode-hangs", format!("edge={} opcode 0x{:02X} (IR=0x{:02X}) never completes", ls.edge, first, ir))));
                        }
                    }
                    break;
                }
                Event::None => {}
            }
            if n > 3 * STALL_LIMIT + 100 {
                break;
            }
            let _ = (Ended::Hung, State::Running);
        }
        if gen::undefined_first(scn.b1) && boundaries >= 2 && !reset_done {
            return Err(label(v("undefined-completes", format!("undefined first byte 0x{:02X} reached the next instruction boundary", scn.b1))));
        }
        Ok(())
    }
}

impl Check for C09 {
    type Scn = Scn;
    fn id(&self) -> &'static str {
        "C09"
    }
    fn level(&self) -> &'static str {
        "fault_enumeration"
    }
    fn runs(&self, _tier: Tier) -> u64 {
        240 + 16 * 256 + 1
    }
    fn generate(&self, rng: &mut Rng, tier: Tier, idx: u64) -> Scn {
        let k = match tier {
            Tier::Quick => 6,
            Tier::Thorough => 200,
        };
        let (b1, b2) = if idx < 240 {
            (idx as u8, None)
        } else if idx < 240 + 16 * 256 {
            let j = idx - 240;
            (0xF0 + (j / 256) as u8, Some((j % 256) as u8))
        } else {
            (0x02, None)
        };
        Scn { b1, b2, seed: rng.next_u64(), k, only: None }
    }
    fn execute(&self, scn: &Scn, ctx: &mut Ctx) -> Result<(), Violation> {
        ctx.cov.set("opcode-forms", mix(scn.b1 as u64, scn.b2.map(|b| b as u64 + 1).unwrap_or(0)));
        for f in 0..16u8 {
            for key in [false, true] {
                for di in 0..scn.k {
                    if let Some(o) = scn.only {
                        if o != (f, key, di) {
                            continue;
                        }
                    }
                    ctx.cov.extra("cases", 1);
                    self.case(scn, f, key, di, ctx)?;
                }
            }
        }
        Ok(())
    }
    fn shrink(&self, scn: &Scn, v: &Violation) -> Vec<Scn> {
        let mut out = vec![];
        if scn.only.is_none() {
            // "case f=0x.. key=.. data=..:"
            let d = &v.detail;
            let f = d.find("f=0x").and_then(|i| u8::from_str_radix(&d[i + 4..i + 5], 16).ok());
            let key = d.find("key=").map(|i| d[i + 4..].starts_with("true"));
            let di = d.find("data=").and_then(|i| d[i + 5..].split(':').next().and_then(|s| s.trim().parse::<u32>().ok()));
            if let (Some(f), Some(key), Some(di)) = (f, key, di) {
                let mut c = scn.clone();
                c.only = Some((f, key, di));
                out.push(c);
            }
        }
        out
    }
    fn rule(&self) -> String {
        "Enumerated: every first opcode byte (256) and, for 0xF0-0xFF, every second byte (256 each) = 4336 opcode forms; per form 16 flag nibbles x {no key press, key flip-flop set with the enable bit on} x K seeded data states (registers, RAM, operand placement in RAM vs I/O, instruction address), each run from an instruction boundary through three boundaries; a regular stop on a fetched STOP is resumed with CONTINUE once (the words up to the next fetch / int word must be the routine of opcode 0x01) and the run goes on. distinct = distinct (instruction-register byte, control word, FR nibble, flip-flop) control states visited.".into()
    }
    fn assumptions(&self) -> Vec<String> {
        vec![
            "routine membership table written by hand from the labels of the control-store listing (DESIGN.md Appendix A)".into(),
            "the complete control-state graph is not constructed; the ALU-condition inputs are reached through data, not forced".into(),
            "liveness bound = R-COST edges exactly (C15's model) for defined opcodes; 1200 edges without a boundary = hang".into(),
        ]
    }
    fn components(&self) -> Value {
        json!({"control store, next-address logic, IR load/reset, Machine": "real", "control-word monitor, R-COST bound, scheduler, PRNG": "harness"})
    }
    fn must_fire(&self, _tier: Tier) -> Vec<String> {
        vec!["undefined-opcode-hangs".into(), "halted".into(), "K-INT".into(), "RST-CPU".into(), "CONT".into(), "stop-routine-completed-after-continue".into()]
    }
    fn exhaustive_dims(&self, _tier: Tier) -> Vec<String> {
        vec!["first opcode byte 0..255".into(), "second opcode byte 0..255 for each first byte 0xF0-0xFF".into(), "FR low nibble 0..15 x key flip-flop".into()]
    }
}
