//! R-BOARD: reference model of the MR2DA2 extension board (DESIGN.md section 4).
//!
//! Written from the C14 statement and the README/board documentation; it shares no code with
//! /repo. Status registers are *computed* from the recorded inputs and configuration.
//! Bits no property speaks about (DASR.FAN, DAISR bits 2..7) are mirrored de facto ("golden")
//! where a program could read them, and are masked out of every C14 comparison.

pub const DASR_J2: u8 = 0x80;
pub const DASR_J1: u8 = 0x40;
pub const DASR_FAN: u8 = 0x20;
pub const DASR_COMP2: u8 = 0x10;
pub const DASR_COMP1: u8 = 0x08;
pub const DASR_UIO: [u8; 3] = [0x01, 0x02, 0x04];
pub const DAISR_FF: u8 = 0x02;
pub const DAISR_SOURCE: u8 = 0x01;

/// bits of read(0xF1) the properties specify
pub const DASR_SPEC_MASK: u8 = !DASR_FAN;
/// bits of read(0xF3) the properties specify
pub const DAISR_SPEC_MASK: u8 = DAISR_FF | DAISR_SOURCE;

#[derive(Clone, Debug, PartialEq)]
pub struct BoardRef {
    pub di1: u8,
    pub do1: u8,
    pub do2: u8,
    /// stored voltages after clamping
    pub temp: f32,
    pub ai: [f32; 2],
    pub j1: bool,
    pub j2: bool,
    /// UIO levels as visible in the status register
    pub uio: [bool; 3],
    /// true = configured as output
    pub uio_out: [bool; 3],
    /// comparator outputs
    pub comp: [bool; 2],
    /// interrupt control register (low six bits of the last 0b11xx_xxxx write to 0xF2)
    pub icr: u8,
    pub int_ff: bool,
    pub source_flag: bool,
    /// golden: set by any write to 0xF0
    pub fan_bit: bool,
}

/// The clamping rule of the statement: 0..5 V, non-numbers as 0 V.
pub fn clamp_voltage(v: f32) -> f32 {
    if v.is_nan() {
        0.0
    } else if v < 0.0 {
        0.0
    } else if v > 5.0 {
        5.0
    } else {
        v
    }
}

pub fn dac_voltage(byte: u8) -> f32 {
    byte as f32 / 100.0
}

impl BoardRef {
    pub fn new() -> Self {
        BoardRef {
            di1: 0,
            do1: 0,
            do2: 0,
            temp: 0.0,
            ai: [0.0; 2],
            j1: false,
            j2: false,
            uio: [false; 3],
            uio_out: [false; 3],
            comp: [false; 2],
            icr: 0,
            int_ff: false,
            source_flag: false,
            fan_bit: false,
        }
    }

    fn source(&self) -> u8 {
        self.icr & 7
    }
    fn falling(&self) -> bool {
        self.icr & 0x08 != 0
    }

    /// An observed level change of interrupt source `src` from `old` to `new`.
    fn edge(&mut self, src: u8, old: bool, new: bool) {
        if self.source() != src || old == new {
            return;
        }
        let is_falling = old && !new;
        if is_falling == self.falling() {
            self.int_ff = true;
            self.source_flag = true;
        }
    }

    fn comp1_now(&self) -> bool {
        self.ai[0] > dac_voltage(self.do1)
    }
    fn comp2_now(&self) -> bool {
        let x = if self.temp > self.ai[1] { self.temp } else { self.ai[1] };
        x > dac_voltage(self.do2)
    }
    fn update_comp1(&mut self) {
        let new = self.comp1_now();
        let old = self.comp[0];
        self.edge(4, old, new);
        self.comp[0] = new;
    }
    fn update_comp2(&mut self) {
        let new = self.comp2_now();
        let old = self.comp[1];
        self.edge(5, old, new);
        self.comp[1] = new;
    }

    // ---- external inputs -------------------------------------------------------------------
    pub fn set_di1(&mut self, v: u8) {
        self.di1 = v;
    }
    pub fn set_temp(&mut self, v: f32) {
        self.temp = clamp_voltage(v);
        self.update_comp2();
    }
    pub fn set_ai(&mut self, which: usize, v: f32) {
        self.ai[which] = clamp_voltage(v);
        if which == 0 {
            self.update_comp1()
        } else {
            self.update_comp2()
        }
    }
    pub fn set_jumper(&mut self, n: u8, v: bool) {
        if n == 1 {
            let old = self.j1;
            self.edge(6, old, v);
            self.j1 = v;
        } else {
            self.j2 = v;
        }
    }
    /// external change of UIO pin `i` (0-based)
    pub fn set_uio(&mut self, i: usize, v: bool) {
        if self.uio_out[i] {
            return; // configured as output: the outside cannot move it
        }
        let old = self.uio[i];
        self.edge(1 + i as u8, old, v);
        self.uio[i] = v;
    }

    // ---- port writes ------------------------------------------------------------------------
    pub fn write(&mut self, addr: u8, byte: u8) {
        match addr {
            0xF0 => {
                self.do1 = byte;
                self.update_comp1();
                self.fan_bit = true;
            }
            0xF1 => {
                self.do2 = byte;
                self.update_comp2();
            }
            0xF2 => match byte >> 6 {
                0 => {
                    // UOR (golden: levels are taken over for all three pins)
                    for i in 0..3 {
                        self.uio[i] = byte & (1 << i) != 0;
                    }
                }
                2 => {
                    for i in 0..3 {
                        self.uio_out[i] = byte & (1 << i) != 0;
                    }
                }
                3 => {
                    self.int_ff = false;
                    self.icr = byte & 0x3F;
                }
                _ => {}
            },
            0xF3 => self.int_ff = false,
            _ => {}
        }
    }

    /// Bits no statement pins, adopted from the tree right after the port write that may have moved
    /// them (narrowly: only the outcomes a reading of the documentation allows):
    /// * a UOR write and the status bits of pins configured as *input*: the externally applied
    ///   level is kept, or the written bit is taken over;
    /// * the source flag at the writes that delete the interrupt flip-flop (ICR write, write to
    ///   0xF3): it stays, or is deleted along with the flip-flop.
    pub fn adopt_after_write(&mut self, addr: u8, byte: u8, before: &BoardRef, sut_dasr: u8, sut_daisr: u8) {
        if addr == 0xF2 && byte >> 6 == 0 {
            for i in 0..3 {
                if !self.uio_out[i] {
                    let sut = sut_dasr & DASR_UIO[i] != 0;
                    if sut == before.uio[i] || sut == (byte & (1 << i) != 0) {
                        self.uio[i] = sut;
                    }
                }
            }
        }
        if ((addr == 0xF2 && byte >> 6 == 3) || addr == 0xF3) && self.source_flag && sut_daisr & DAISR_SOURCE == 0 {
            self.source_flag = false;
        }
    }

    /// what a master reset / program load does to the board (C07 statement)
    pub fn master_reset(&mut self) {
        self.do1 = 0;
        self.do2 = 0;
        self.icr = 0;
        self.uio_out = [false; 3];
    }

    // ---- status -----------------------------------------------------------------------------
    pub fn dasr(&self) -> u8 {
        let mut v = 0;
        if self.j2 {
            v |= DASR_J2
        }
        if self.j1 {
            v |= DASR_J1
        }
        if self.fan_bit {
            v |= DASR_FAN
        }
        if self.comp[1] {
            v |= DASR_COMP2
        }
        if self.comp[0] {
            v |= DASR_COMP1
        }
        for i in 0..3 {
            if self.uio[i] {
                v |= DASR_UIO[i]
            }
        }
        v
    }
    pub fn daisr(&self) -> u8 {
        (if self.int_ff { DAISR_FF } else { 0 }) | (if self.source_flag { DAISR_SOURCE } else { 0 })
    }
    /// documented law: period = 255 - 255 * V / 2.55 V with V = byte / 100
    pub fn fan_period(&self) -> u8 {
        255 - self.do1
    }
    pub fn fan_period_ok(&self, observed: u8) -> bool {
        let m = self.fan_period() as i32;
        (observed as i32 - m).abs() <= 1
    }
}
