//! Generic seeded-search driver: generate -> execute -> (on violation) minimise -> replay file ->
//! re-execute in a fresh process -> report.  Also: evidence writer, known-findings filter,
//! determinism self-check.
use crate::prng::{run_seed, Rng};
use serde::{de::DeserializeOwned, Deserialize, Serialize};
use serde_json::{json, Value};
use std::cell::RefCell;
use std::collections::{BTreeMap, HashSet};
use std::hash::{BuildHasherDefault, Hasher};
use std::path::{Path, PathBuf};
use std::sync::atomic::{AtomicU64, Ordering};
use std::sync::Mutex;
use std::time::Instant;

pub const DEFAULT_SEED: u64 = 0x2A_E1_2A_E1;

#[derive(Clone, Copy, Debug, PartialEq, Eq, Serialize, Deserialize)]
#[serde(rename_all = "lowercase")]
pub enum Tier {
    Quick,
    Thorough,
}

impl Tier {
    pub fn name(self) -> &'static str {
        match self {
            Tier::Quick => "quick",
            Tier::Thorough => "thorough",
        }
    }
}

#[derive(Clone, Debug, PartialEq, Eq, Serialize, Deserialize)]
pub struct Violation {
    pub property: String,
    /// Short stable name of the oracle that fired (the "violation class" minimisation preserves).
    pub oracle: String,
    /// Exact description (first differing observable, edge number, ...). A replay must reproduce it.
    pub detail: String,
}

impl Violation {
    pub fn new(property: &str, oracle: &str, detail: String) -> Self {
        Violation {
            property: property.to_string(),
            oracle: oracle.to_string(),
            detail,
        }
    }
}

#[derive(Clone, Debug, Serialize, Deserialize)]
pub struct Finding {
    pub property: String,
    /// "open" (suppresses a matching violation, prints KNOWN-FINDING) or "fixed" (suppresses nothing)
    pub status: String,
    pub oracle: String,
    #[serde(default)]
    pub detail_contains: Vec<String>,
    pub what: String,
    #[serde(default)]
    pub commit: Option<String>,
}

impl Finding {
    pub fn matches(&self, v: &Violation) -> bool {
        self.status == "open"
            && self.property == v.property
            && self.oracle == v.oracle
            && self.detail_contains.iter().all(|s| v.detail.contains(s.as_str()))
    }
}

pub fn verif_dir() -> PathBuf {
    std::env::var_os("VERIF_DIR")
        .map(PathBuf::from)
        .unwrap_or_else(|| PathBuf::from("/verif"))
}

pub fn load_findings() -> Vec<Finding> {
    let p = verif_dir().join("known_findings.json");
    match std::fs::read_to_string(&p) {
        Ok(s) => match serde_json::from_str::<Vec<Finding>>(&s) {
            Ok(v) => v,
            Err(e) => {
                eprintln!("HARNESS-ERROR: cannot parse {}: {}", p.display(), e);
                std::process::exit(2);
            }
        },
        Err(_) => vec![],
    }
}

// ------------------------------------------------------------------------------------------------
// Coverage bookkeeping

#[derive(Default, Clone)]
pub struct IdHasher(u64);
impl Hasher for IdHasher {
    fn finish(&self) -> u64 {
        self.0
    }
    fn write(&mut self, bytes: &[u8]) {
        for b in bytes {
            self.0 = (self.0 ^ *b as u64).wrapping_mul(0x100_0000_01B3);
        }
    }
    fn write_u64(&mut self, i: u64) {
        self.0 = i;
    }
}
pub type U64Set = HashSet<u64, BuildHasherDefault<IdHasher>>;

#[inline]
pub fn mix(a: u64, b: u64) -> u64 {
    let mut x = a ^ b.wrapping_mul(0x9E37_79B9_7F4A_7C15);
    x = (x ^ (x >> 32)).wrapping_mul(0xD6E8_FEB8_6659_FD93);
    x = (x ^ (x >> 32)).wrapping_mul(0xD6E8_FEB8_6659_FD93);
    x ^ (x >> 32)
}

#[derive(Default)]
pub struct Cov {
    /// executions / cases run
    pub evaluations: u64,
    /// simulated clock edges issued to the SUT
    pub sim_edges: u64,
    /// "times it actually fired" per fault / stimulus kind
    pub faults: BTreeMap<String, u64>,
    /// branch probes ("this rare condition was hit")
    pub probes: BTreeMap<String, u64>,
    /// distinct non-trivial cases by the check's stated rule (hashed keys)
    pub distinct: U64Set,
    /// named small coverage sets (e.g. opcodes executed); reported by size
    pub sets: BTreeMap<String, U64Set>,
    /// free-form extra numbers (summed on merge)
    pub extra: BTreeMap<String, u64>,
    pub samples: Vec<Value>,
}

impl Cov {
    #[inline]
    pub fn fault(&mut self, k: &str) {
        self.fault_n(k, 1)
    }
    pub fn fault_n(&mut self, k: &str, n: u64) {
        if let Some(c) = self.faults.get_mut(k) {
            *c += n;
        } else {
            self.faults.insert(k.to_string(), n);
        }
    }
    #[inline]
    pub fn probe(&mut self, k: &str) {
        if let Some(c) = self.probes.get_mut(k) {
            *c += 1;
        } else {
            self.probes.insert(k.to_string(), 1);
        }
    }
    /// declare a probe so that it shows up with count 0 if never hit
    pub fn declare_probe(&mut self, k: &str) {
        self.probes.entry(k.to_string()).or_insert(0);
    }
    pub fn declare_fault(&mut self, k: &str) {
        self.faults.entry(k.to_string()).or_insert(0);
    }
    #[inline]
    pub fn distinct(&mut self, key: u64) {
        self.distinct.insert(key);
    }
    #[inline]
    pub fn set(&mut self, name: &str, key: u64) {
        if let Some(s) = self.sets.get_mut(name) {
            s.insert(key);
        } else {
            let mut s = U64Set::default();
            s.insert(key);
            self.sets.insert(name.to_string(), s);
        }
    }
    pub fn extra(&mut self, k: &str, n: u64) {
        *self.extra.entry(k.to_string()).or_insert(0) += n;
    }
    pub fn merge(&mut self, o: Cov) {
        self.evaluations += o.evaluations;
        self.sim_edges += o.sim_edges;
        for (k, v) in o.faults {
            *self.faults.entry(k).or_insert(0) += v;
        }
        for (k, v) in o.probes {
            *self.probes.entry(k).or_insert(0) += v;
        }
        for (k, v) in o.extra {
            *self.extra.entry(k).or_insert(0) += v;
        }
        self.distinct.extend(o.distinct);
        for (k, v) in o.sets {
            self.sets.entry(k).or_default().extend(v);
        }
        // samples: keep those of the lowest run indices; they carry "run" so sort later
        self.samples.extend(o.samples);
    }
}

/// What `execute` gets: coverage sink plus the known-findings filter.
pub struct Ctx<'a> {
    pub cov: &'a mut Cov,
    findings: &'a [Finding],
    pub known_hits: Vec<usize>,
    /// when set, nothing is filtered (used by minimisation / replay of a specific violation)
    pub raw: bool,
    /// trace hash for the determinism self-check
    pub trace: u64,
    pub want_trace: bool,
}

impl<'a> Ctx<'a> {
    pub fn new(cov: &'a mut Cov, findings: &'a [Finding]) -> Self {
        Ctx {
            cov,
            findings,
            known_hits: vec![],
            raw: false,
            trace: 0,
            want_trace: false,
        }
    }
    /// Report a violation. Returns Ok(()) if it is a listed open finding (execution continues),
    /// Err(v) otherwise (execution of this run stops, `?` propagates it).
    pub fn report(&mut self, v: Violation) -> Result<(), Violation> {
        if !self.raw {
            for (i, f) in self.findings.iter().enumerate() {
                if f.matches(&v) {
                    if !self.known_hits.contains(&i) {
                        self.known_hits.push(i);
                    }
                    return Ok(());
                }
            }
        }
        Err(v)
    }
    #[inline]
    pub fn tr(&mut self, x: u64) {
        if self.want_trace {
            self.trace = mix(self.trace, x);
        }
    }
}

// ------------------------------------------------------------------------------------------------
// The per-property interface

pub trait Check: Sync {
    type Scn: Serialize + DeserializeOwned + Clone + Send;
    fn id(&self) -> &'static str;
    fn level(&self) -> &'static str {
        "exploration"
    }
    /// number of generated scenarios per tier
    fn runs(&self, tier: Tier) -> u64;
    fn generate(&self, rng: &mut Rng, tier: Tier, idx: u64) -> Self::Scn;
    fn execute(&self, scn: &Self::Scn, ctx: &mut Ctx) -> Result<(), Violation>;
    /// candidate simplifications of a failing scenario, most aggressive first
    fn shrink(&self, scn: &Self::Scn, v: &Violation) -> Vec<Self::Scn>;
    /// how cases are generated and what makes one distinct / non-trivial
    fn rule(&self) -> String;
    fn assumptions(&self) -> Vec<String>;
    /// real/stub table of DESIGN.md 2.4 for this property
    fn components(&self) -> Value;
    /// short, human-readable rendering of a scenario for the evidence samples
    fn sample(&self, scn: &Self::Scn) -> Value {
        serde_json::to_value(scn).unwrap_or(Value::Null)
    }
    /// evidence sanity: names of fault counters / probes that must be non-zero in this tier
    fn must_fire(&self, _tier: Tier) -> Vec<String> {
        vec![]
    }
    /// additional deterministic (non-sampled) sweep executed once per check invocation,
    /// before the sampled runs; used for the "swept completely inside" sub-dimensions that
    /// do not depend on a sampled scenario.
    fn fixed_sweep(&self, _tier: Tier, _ctx: &mut Ctx) -> Result<(), (Violation, Option<Self::Scn>)> {
        Ok(())
    }
    /// names of sub-dimensions that were swept exhaustively
    fn exhaustive_dims(&self, _tier: Tier) -> Vec<String> {
        vec![]
    }
}

#[derive(Serialize, Deserialize)]
pub struct ReplayFile {
    pub property: String,
    pub seed: u64,
    pub run: u64,
    pub tier: Tier,
    pub violation: Violation,
    pub minimised: bool,
    pub shrink_steps: u64,
    pub scenario: Value,
}

thread_local! {
    static LAST_PANIC: RefCell<Option<(String, String)>> = RefCell::new(None);
}

pub fn install_quiet_panic_hook() {
    std::panic::set_hook(Box::new(|info| {
        let loc = info
            .location()
            .map(|l| format!("{}:{}:{}", l.file(), l.line(), l.column()))
            .unwrap_or_else(|| "<unknown>".into());
        let msg = if let Some(s) = info.payload().downcast_ref::<&str>() {
            s.to_string()
        } else if let Some(s) = info.payload().downcast_ref::<String>() {
            s.clone()
        } else {
            "<non-string panic payload>".into()
        };
        LAST_PANIC.with(|p| *p.borrow_mut() = Some((loc, msg)));
    }));
}

pub fn take_last_panic() -> Option<(String, String)> {
    LAST_PANIC.with(|p| p.borrow_mut().take())
}

/// Is the panic location inside the system under test (as opposed to the harness)?
pub fn panic_in_sut(loc: &str) -> bool {
    loc.contains("/repo/") || loc.contains("emulator-2a")
}

/// harness sources are compiled with relative paths (src/...), /repo's with absolute ones
pub fn panic_in_harness(loc: &str) -> bool {
    !panic_in_sut(loc) && (loc.starts_with("src/") || loc.contains("/verif/"))
}

/// Run `f`, converting a panic inside SUT code into `Err((location, message))`.
/// A panic inside harness code aborts the process with exit status 2.
pub fn guard<T>(f: impl FnOnce() -> T) -> Result<T, (String, String)> {
    match std::panic::catch_unwind(std::panic::AssertUnwindSafe(f)) {
        Ok(v) => Ok(v),
        Err(_) => {
            let (loc, msg) = take_last_panic().unwrap_or_else(|| ("<unknown>".into(), "<unknown>".into()));
            if !panic_in_harness(&loc) {
                Err((loc, msg))
            } else {
                eprintln!("HARNESS-ERROR: panic in harness code at {}: {}", loc, msg);
                std::process::exit(2);
            }
        }
    }
}

fn exec_guarded<C: Check>(c: &C, scn: &C::Scn, ctx: &mut Ctx) -> Result<(), Violation> {
    let r = std::panic::catch_unwind(std::panic::AssertUnwindSafe(|| c.execute(scn, ctx)));
    match r {
        Ok(r) => r,
        Err(_) => {
            let (loc, msg) = take_last_panic().unwrap_or_else(|| ("<unknown>".into(), "<unknown>".into()));
            if panic_in_harness(&loc) {
                eprintln!("HARNESS-ERROR: panic in harness code at {}: {}", loc, msg);
                std::process::exit(2);
            }
            // strip line numbers from harness-independent part? keep location: it is the signature
            ctx.report(Violation::new(
                c.id(),
                "sut-panic",
                format!("panic at {}: {}", loc, msg),
            ))
        }
    }
}

pub struct Opts {
    pub tier: Tier,
    pub seed: u64,
    pub runs_override: Option<u64>,
    pub workers: usize,
    pub write_evidence: bool,
    pub minimise: bool,
}

impl Opts {
    pub fn from_env(tier: Tier) -> Self {
        let seed = std::env::var("VERIF_SEED")
            .ok()
            .and_then(|s| s.trim().parse::<u64>().ok().or_else(|| s.trim().parse::<i64>().ok().map(|x| x as u64)))
            .unwrap_or(DEFAULT_SEED);
        let workers = std::env::var("VERIF_WORKERS")
            .ok()
            .and_then(|s| s.parse().ok())
            .unwrap_or_else(|| std::thread::available_parallelism().map(|n| n.get()).unwrap_or(4));
        let runs_override = std::env::var("VERIF_RUNS").ok().and_then(|s| s.parse().ok());
        Opts {
            tier,
            seed,
            runs_override,
            workers,
            write_evidence: true,
            minimise: std::env::var("VERIF_NO_MIN").is_err(),
        }
    }
}

pub fn slow_ms() -> Option<u64> {
    std::env::var("VERIF_SLOW_MS").ok().and_then(|v| v.parse().ok())
}

fn hang_limit_s() -> u64 {
    std::env::var("VERIF_HANG_S").ok().and_then(|s| s.parse().ok()).unwrap_or(120)
}

/// Run `simcheck replay FILE` in a child process with a kill timeout.
/// Returns Some(exit code) or None if it had to be killed (did not return).
fn replay_child(path: &Path, timeout_s: u64) -> Option<(i32, String)> {
    let exe = std::env::current_exe().expect("current exe");
    let mut child = std::process::Command::new(exe)
        .arg("replay")
        .arg(path)
        .env("VERIF_HANG_S", timeout_s.to_string())
        .stdout(std::process::Stdio::piped())
        .stderr(std::process::Stdio::null())
        .spawn()
        .ok()?;
    let start = Instant::now();
    loop {
        match child.try_wait() {
            Ok(Some(st)) => {
                let mut out = String::new();
                if let Some(mut o) = child.stdout.take() {
                    use std::io::Read;
                    let _ = o.read_to_string(&mut out);
                }
                return Some((st.code().unwrap_or(-1), out));
            }
            Ok(None) => {
                if start.elapsed().as_secs() > timeout_s + 5 {
                    let _ = child.kill();
                    let _ = child.wait();
                    return None;
                }
                std::thread::sleep(std::time::Duration::from_millis(5));
            }
            Err(_) => return None,
        }
    }
}

/// A call into the system under test did not return: report it as a violation with the scenario
/// as replay file (minimised through child processes that can be killed), then exit 1.
fn report_hang<C: Check>(c: &C, opts: &Opts, run: u64, scn: Option<C::Scn>) -> ! {
    let v = Violation::new(
        c.id(),
        "no-return",
        format!("a call into the system under test did not return within {} s of wall-clock time", hang_limit_s()),
    );
    println!("violation in run {}: oracle={} detail={}", run, v.oracle, v.detail);
    match scn {
        Some(scn) => {
            let mut cur = scn;
            let mut steps = 0u64;
            let tmp = verif_dir().join("replays").join(format!("{}-{}-{}-cand.json", c.id(), opts.seed, run));
            let _ = std::fs::create_dir_all(verif_dir().join("replays"));
            let mut tried = 0;
            'outer: loop {
                for cand in c.shrink(&cur, &v) {
                    if tried >= 60 {
                        break 'outer;
                    }
                    tried += 1;
                    let rf = ReplayFile {
                        property: c.id().to_string(),
                        seed: opts.seed,
                        run,
                        tier: opts.tier,
                        violation: v.clone(),
                        minimised: false,
                        shrink_steps: 0,
                        scenario: serde_json::to_value(&cand).expect("serialises"),
                    };
                    if std::fs::write(&tmp, serde_json::to_string(&rf).unwrap()).is_err() {
                        break 'outer;
                    }
                    match replay_child(&tmp, 3) {
                        Some((1, out)) if out.contains("REPRODUCED oracle=no-return") => {
                            cur = cand;
                            steps += 1;
                            continue 'outer;
                        }
                        _ => {}
                    }
                }
                break;
            }
            let _ = std::fs::remove_file(&tmp);
            let path = write_replay(c, opts, run, &cur, &v, true, steps);
            match replay_child(&path, 5) {
                Some((1, out)) if out.contains("REPRODUCED") => println!("replay in fresh process: reproduced exactly"),
                other => {
                    eprintln!("HARNESS-ERROR: hang replay of {} did not reproduce: {:?}", path.display(), other);
                    std::process::exit(2);
                }
            }
            println!("VIOLATION property={} replay={}", c.id(), path.display());
        }
        None => {
            let path = verif_dir().join("replays").join(format!("{}-{}-sweep-hang.json", c.id(), opts.seed));
            let _ = std::fs::create_dir_all(verif_dir().join("replays"));
            let _ = std::fs::write(&path, serde_json::to_string_pretty(&json!({"property": c.id(), "violation": v, "scenario": null})).unwrap());
            println!("VIOLATION property={} replay={}", c.id(), path.display());
        }
    }
    std::process::exit(1)
}

fn stream_of(id: &str) -> u64 {
    let mut h = 0xcbf2_9ce4_8422_2325u64;
    for b in id.bytes() {
        h = (h ^ b as u64).wrapping_mul(0x100_0000_01B3);
    }
    h
}

/// Minimise `scn` while a violation with the same oracle name persists.
pub fn minimise<C: Check>(c: &C, scn: C::Scn, v: Violation, budget: u64) -> (C::Scn, Violation, u64) {
    let findings: Vec<Finding> = vec![];
    let mut cur = scn;
    let mut curv = v;
    let mut steps = 0u64;
    let mut execs = 0u64;
    let start = Instant::now();
    'outer: loop {
        let cands = c.shrink(&cur, &curv);
        for cand in cands {
            if execs >= budget || start.elapsed().as_secs() > 120 {
                break 'outer;
            }
            execs += 1;
            let mut cov = Cov::default();
            let mut ctx = Ctx::new(&mut cov, &findings);
            ctx.raw = true;
            if let Err(nv) = exec_guarded(c, &cand, &mut ctx) {
                if nv.oracle == curv.oracle && nv.property == curv.property {
                    cur = cand;
                    curv = nv;
                    steps += 1;
                    continue 'outer;
                }
            }
        }
        break;
    }
    (cur, curv, steps)
}

pub fn write_replay<C: Check>(
    c: &C,
    opts: &Opts,
    run: u64,
    scn: &C::Scn,
    v: &Violation,
    minimised: bool,
    steps: u64,
) -> PathBuf {
    let dir = verif_dir().join("replays");
    let _ = std::fs::create_dir_all(&dir);
    let path = dir.join(format!("{}-{}-{}.json", c.id(), opts.seed, run));
    let rf = ReplayFile {
        property: c.id().to_string(),
        seed: opts.seed,
        run,
        tier: opts.tier,
        violation: v.clone(),
        minimised,
        shrink_steps: steps,
        scenario: serde_json::to_value(scn).expect("scenario serialises"),
    };
    std::fs::write(&path, serde_json::to_string_pretty(&rf).unwrap()).unwrap_or_else(|e| {
        eprintln!("HARNESS-ERROR: cannot write {}: {}", path.display(), e);
        std::process::exit(2);
    });
    path
}

/// Re-execute a replay file in *this* process. Returns the violation found (if any).
pub fn replay_in_process<C: Check>(c: &C, rf: &ReplayFile) -> Option<Violation> {
    let scn: C::Scn = match serde_json::from_value(rf.scenario.clone()) {
        Ok(s) => s,
        Err(e) => {
            eprintln!("HARNESS-ERROR: replay scenario does not deserialise: {}", e);
            std::process::exit(2);
        }
    };
    let findings: Vec<Finding> = vec![];
    let mut cov = Cov::default();
    let mut ctx = Ctx::new(&mut cov, &findings);
    ctx.raw = true;
    exec_guarded(c, &scn, &mut ctx).err()
}

/// `simcheck replay FILE`: exit 1 + VIOLATION line iff the recorded violation reproduces exactly.
pub fn replay_cmd<C: Check>(c: &C, path: &Path, rf: &ReplayFile) -> i32 {
    // watchdog: a replay that does not return reproduces a recorded "no-return" violation
    let limit = hang_limit_s().min(10);
    let recorded_hang = rf.violation.oracle == "no-return";
    let prop = rf.property.clone();
    let p2 = path.to_path_buf();
    std::thread::spawn(move || {
        std::thread::sleep(std::time::Duration::from_secs(if recorded_hang { limit.min(3) } else { limit }));
        println!("REPRODUCED oracle=no-return detail=the call did not return within the watchdog time");
        println!("VIOLATION property={} replay={}", prop, p2.display());
        std::process::exit(1);
    });
    match replay_in_process(c, rf) {
        Some(v) if v == rf.violation => {
            println!("REPRODUCED oracle={} detail={}", v.oracle, v.detail);
            println!("VIOLATION property={} replay={}", rf.property, path.display());
            1
        }
        Some(v) => {
            println!(
                "DIFFERENT violation on replay: oracle={} detail={} (recorded: oracle={} detail={})",
                v.oracle, v.detail, rf.violation.oracle, rf.violation.detail
            );
            println!("VIOLATION property={} replay={}", rf.property, path.display());
            1
        }
        None => {
            println!("NOT-REPRODUCED: the recorded scenario no longer violates {}", rf.property);
            0
        }
    }
}

struct Found<S> {
    run: u64,
    scn: Option<S>,
    v: Violation,
}

pub fn run_check<C: Check>(c: &C, opts: &Opts) -> i32 {
    let t0 = Instant::now();
    let findings = load_findings();
    let runs = opts.runs_override.unwrap_or_else(|| c.runs(opts.tier));
    let stream = stream_of(c.id());
    println!(
        "CHECK property={} tier={} VERIF_SEED={} runs={} workers={}",
        c.id(),
        opts.tier.name(),
        opts.seed,
        runs,
        opts.workers
    );

    let mut total = Cov::default();
    let mut known_hits: Vec<usize> = vec![];
    let mut found: Option<Found<C::Scn>> = None;

    // 1. fixed sweep (deterministic, not sampled)
    {
        let mut ctx = Ctx::new(&mut total, &findings);
        let r = std::panic::catch_unwind(std::panic::AssertUnwindSafe(|| c.fixed_sweep(opts.tier, &mut ctx)));
        let r = match r {
            Ok(r) => r,
            Err(_) => {
                let (loc, msg) = take_last_panic().unwrap_or_default();
                if panic_in_harness(&loc) {
                    eprintln!("HARNESS-ERROR: panic in harness code at {}: {}", loc, msg);
                    return 2;
                }
                Err((
                    Violation::new(c.id(), "sut-panic", format!("panic at {}: {}", loc, msg)),
                    None,
                ))
            }
        };
        known_hits.extend(ctx.known_hits.iter().copied());
        if let Err((v, scn)) = r {
            found = Some(Found { run: u64::MAX, scn, v });
        }
    }

    // 2. sampled runs
    if found.is_none() {
        let next = AtomicU64::new(0);
        let stop_at = AtomicU64::new(u64::MAX);
        let results: Mutex<Vec<(Cov, Vec<usize>, Option<Found<C::Scn>>)>> = Mutex::new(vec![]);
        let nworkers = opts.workers.max(1);
        let slots: Vec<Mutex<Option<(u64, Instant, C::Scn)>>> = (0..nworkers).map(|_| Mutex::new(None)).collect();
        let live = AtomicU64::new(nworkers as u64);
        std::thread::scope(|s| {
            // watchdog: a run that does not come back is a violation ("a step always returns")
            s.spawn(|| {
                let limit = hang_limit_s();
                while live.load(Ordering::Relaxed) > 0 {
                    std::thread::sleep(std::time::Duration::from_millis(200));
                    for slot in slots.iter() {
                        let g = slot.lock().unwrap();
                        if let Some((idx, t, scn)) = g.as_ref() {
                            if t.elapsed().as_secs() >= limit {
                                let (idx, scn) = (*idx, scn.clone());
                                drop(g);
                                report_hang(c, opts, idx, Some(scn));
                            }
                        }
                    }
                }
            });
            for w in 0..nworkers {
                let slot = &slots[w];
                let live = &live;
                let next = &next;
                let stop_at = &stop_at;
                let results = &results;
                let findings = &findings;
                s.spawn(move || {
                    let mut cov = Cov::default();
                    let mut hits: Vec<usize> = vec![];
                    let mut my_found: Option<Found<C::Scn>> = None;
                    loop {
                        let idx = next.fetch_add(1, Ordering::Relaxed);
                        if idx >= runs || idx > stop_at.load(Ordering::Relaxed) {
                            break;
                        }
                        let mut rng = Rng::new(run_seed(opts.seed, stream, idx));
                        // generators may consult the system under test (e.g. to place a budget around
                        // the halting time): a panic there is a finding too, never a dead worker
                        let scn = match std::panic::catch_unwind(std::panic::AssertUnwindSafe(|| c.generate(&mut rng, opts.tier, idx))) {
                            Ok(s) => s,
                            Err(_) => {
                                let (loc, msg) = take_last_panic().unwrap_or_default();
                                if panic_in_harness(&loc) {
                                    eprintln!("HARNESS-ERROR: panic in harness code at {}: {}", loc, msg);
                                    std::process::exit(2);
                                }
                                println!("violation in run {}: oracle=sut-panic detail=panic at {}: {} (while generating the scenario)", idx, loc, msg);
                                let dir = verif_dir().join("replays");
                                let _ = std::fs::create_dir_all(&dir);
                                let path = dir.join(format!("{}-{}-{}-generate.json", c.id(), opts.seed, idx));
                                let _ = std::fs::write(&path, serde_json::to_string_pretty(&json!({
                                    "property": c.id(), "seed": opts.seed, "run": idx, "tier": opts.tier.name(),
                                    "violation": {"property": c.id(), "oracle": "sut-panic", "detail": format!("panic at {}: {} (while generating the scenario)", loc, msg)},
                                    "scenario": null, "note": "re-run the check with the same VERIF_SEED to reproduce"
                                })).unwrap());
                                println!("VIOLATION property={} replay={}", c.id(), path.display());
                                std::process::exit(1);
                            }
                        };
                        if idx < 3 {
                            let mut s = c.sample(&scn);
                            if let Value::Object(ref mut m) = s {
                                m.insert("run".into(), json!(idx));
                            } else {
                                s = json!({"run": idx, "case": s});
                            }
                            cov.samples.push(s);
                        }
                        cov.evaluations += 1;
                        *slot.lock().unwrap() = Some((idx, Instant::now(), scn.clone()));
                        let mut ctx = Ctx::new(&mut cov, findings);
                        let t_run = Instant::now();
                        let r = exec_guarded(c, &scn, &mut ctx);
                        *slot.lock().unwrap() = None;
                        if let Some(ms) = slow_ms() {
                            // diagnostics only (stderr): which scenarios are expensive in wall-clock terms
                            let el = t_run.elapsed().as_millis() as u64;
                            if el >= ms {
                                eprintln!("SLOW run={} {} ms", idx, el);
                            }
                        }
                        for h in ctx.known_hits.drain(..) {
                            if !hits.contains(&h) {
                                hits.push(h);
                            }
                        }
                        if let Err(v) = r {
                            stop_at.fetch_min(idx, Ordering::Relaxed);
                            if my_found.as_ref().map(|f| f.run > idx).unwrap_or(true) {
                                my_found = Some(Found { run: idx, scn: Some(scn), v });
                            }
                        }
                    }
                    results.lock().unwrap().push((cov, hits, my_found));
                    live.fetch_sub(1, Ordering::Relaxed);
                });
            }
        });
        for (cov, hits, f) in results.into_inner().unwrap() {
            total.merge(cov);
            for h in hits {
                if !known_hits.contains(&h) {
                    known_hits.push(h);
                }
            }
            if let Some(f) = f {
                if found.as_ref().map(|g| g.run > f.run).unwrap_or(true) {
                    found = Some(f);
                }
            }
        }
    }

    // a violation whose oracle is "harness" is a failure of the machinery (missing binary, sandbox
    // I/O, helper program that did not stop), never a verdict about the system under test
    if let Some(f) = &found {
        if f.v.oracle == "harness" {
            eprintln!("HARNESS-ERROR: {}", f.v.detail);
            return 2;
        }
    }
    known_hits.sort_unstable();
    for h in &known_hits {
        let f = &findings[*h];
        println!("KNOWN-FINDING: property={} {}", f.property, f.what);
    }

    // 3. violation handling
    let mut exit = 0;
    let mut violations = 0;
    let mut replay_path: Option<PathBuf> = None;
    if let Some(f) = found {
        violations = 1;
        exit = 1;
        println!(
            "violation in run {}: oracle={} detail={}",
            if f.run == u64::MAX { "fixed-sweep".to_string() } else { f.run.to_string() },
            f.v.oracle,
            f.v.detail
        );
        match f.scn {
            Some(scn) => {
                let (scn, v, steps) = if opts.minimise {
                    minimise(c, scn, f.v.clone(), 20_000)
                } else {
                    (scn, f.v.clone(), 0)
                };
                let run = if f.run == u64::MAX { 0 } else { f.run };
                let path = write_replay(c, opts, run, &scn, &v, opts.minimise, steps);
                println!(
                    "minimised in {} steps: oracle={} detail={}",
                    steps, v.oracle, v.detail
                );
                // replay in a fresh process: must fail the same way
                match replay_child(&path, hang_limit_s()) {
                    Some((1, out)) if out.contains("REPRODUCED") => {
                        println!("replay in fresh process: reproduced exactly");
                    }
                    other => {
                        eprintln!("HARNESS-ERROR: replay of {} did not reproduce: {:?}", path.display(), other);
                        exit = 2;
                    }
                }
                replay_path = Some(path);
            }
            None => {
                // violation from a fixed sweep without scenario: write a descriptive replay stub
                let dir = verif_dir().join("replays");
                let _ = std::fs::create_dir_all(&dir);
                let path = dir.join(format!("{}-{}-sweep.json", c.id(), opts.seed));
                let _ = std::fs::write(
                    &path,
                    serde_json::to_string_pretty(&json!({
                        "property": c.id(), "seed": opts.seed, "tier": opts.tier.name(),
                        "violation": f.v, "scenario": null,
                        "note": "found by the deterministic sweep; re-run the check to reproduce"
                    }))
                    .unwrap(),
                );
                replay_path = Some(path);
            }
        }
    }

    // 4. evidence
    let wall = t0.elapsed().as_secs_f64();
    let mut sanity_fail: Vec<String> = vec![];
    if exit == 0 {
        for k in c.must_fire(opts.tier) {
            let n = total.faults.get(&k).copied().or_else(|| total.probes.get(&k).copied()).unwrap_or(0);
            if n == 0 {
                sanity_fail.push(k);
            }
        }
    }
    if opts.write_evidence {
        total.samples.sort_by_key(|s| s.get("run").and_then(|r| r.as_u64()).unwrap_or(u64::MAX));
        total.samples.truncate(3);
        let sets: BTreeMap<String, usize> = total.sets.iter().map(|(k, v)| (k.clone(), v.len())).collect();
        let runs_done = total.evaluations;
        let ev = json!({
            "property_id": c.id(),
            "tier": opts.tier.name(),
            "seed": opts.seed as i64,
            "level": c.level(),
            "coverage": {
                "evaluations": runs_done.max(1),
                "distinct_nontrivial": total.distinct.len(),
                "rule": c.rule(),
                "samples": total.samples,
                "exhaustive": false,
                "exhaustive_subdimensions": c.exhaustive_dims(opts.tier),
                "simulated_runs": runs_done,
                "simulated_runs_per_hour": if wall > 0.0 { (runs_done as f64 / wall * 3600.0) as u64 } else { 0 },
                "simulated_clock_edges": total.sim_edges,
                "simulated_machine_seconds": total.sim_edges as f64 / 7_372_800.0,
                "faults_fired": total.faults,
                "probes": total.probes,
                "coverage_sets": sets,
                "extra": total.extra,
                "components": c.components(),
                "workers": opts.workers,
                "known_findings_hit": known_hits.iter().map(|h| findings[*h].what.clone()).collect::<Vec<_>>(),
                "replay": replay_path.as_ref().map(|p| p.display().to_string()),
                "probes_stuck_at_zero": sanity_fail,
            },
            "assumptions": c.assumptions(),
            "wall_s": wall,
            "violations": violations,
        });
        let dir = verif_dir().join("evidence");
        let _ = std::fs::create_dir_all(&dir);
        let p = dir.join(format!("{}.json", c.id()));
        if let Err(e) = std::fs::write(&p, serde_json::to_string_pretty(&ev).unwrap()) {
            eprintln!("HARNESS-ERROR: cannot write evidence {}: {}", p.display(), e);
            return 2;
        }
    }
    println!(
        "runs={} sim_edges={} distinct={} wall={:.1}s",
        total.evaluations,
        total.sim_edges,
        total.distinct.len(),
        wall
    );
    if !sanity_fail.is_empty() {
        eprintln!(
            "HARNESS-ERROR: coverage sanity: these fault kinds / probes never fired: {:?}",
            sanity_fail
        );
        return 2;
    }
    if exit == 1 {
        if let Some(p) = replay_path {
            println!("VIOLATION property={} replay={}", c.id(), p.display());
        }
    } else if exit == 0 {
        println!("OK property={} held on everything explored", c.id());
    }
    exit
}

/// Determinism self-check: every run executed twice, trace hashes compared; also across
/// worker counts by comparing the per-run hash vectors.
pub fn selfcheck_determinism<C: Check>(c: &C, opts: &Opts, n: u64) -> i32 {
    let findings = load_findings();
    let stream = stream_of(c.id());
    let hash_runs = |workers: usize| -> Vec<u64> {
        let next = AtomicU64::new(0);
        let out: Mutex<Vec<(u64, u64)>> = Mutex::new(vec![]);
        std::thread::scope(|s| {
            for _ in 0..workers {
                s.spawn(|| loop {
                    let idx = next.fetch_add(1, Ordering::Relaxed);
                    if idx >= n {
                        break;
                    }
                    let mut rng = Rng::new(run_seed(opts.seed, stream, idx));
                    let scn = c.generate(&mut rng, opts.tier, idx);
                    let mut cov = Cov::default();
                    let mut ctx = Ctx::new(&mut cov, &findings);
                    ctx.want_trace = true;
                    let r = exec_guarded(c, &scn, &mut ctx);
                    let mut h = ctx.trace;
                    h = mix(h, serde_json::to_string(&scn).map(|s| stream_of(&s)).unwrap_or(0));
                    h = mix(h, match r {
                        Ok(()) => 0,
                        Err(v) => stream_of(&format!("{}|{}", v.oracle, v.detail)),
                    });
                    h = mix(h, cov.sim_edges);
                    out.lock().unwrap().push((idx, h));
                });
            }
        });
        let mut v = out.into_inner().unwrap();
        v.sort_unstable();
        v.into_iter().map(|(_, h)| h).collect()
    };
    let a = hash_runs(1);
    let b = hash_runs(opts.workers.max(2));
    let c2 = hash_runs(opts.workers.max(2));
    let mut bad = 0;
    for i in 0..a.len() {
        if a[i] != b[i] || b[i] != c2[i] {
            bad += 1;
            if bad <= 5 {
                eprintln!("NON-DETERMINISTIC run {}: {:x} {:x} {:x}", i, a[i], b[i], c2[i]);
            }
        }
    }
    println!(
        "selfcheck determinism property={} runs={} executions={} divergent={}",
        c.id(),
        n,
        3 * n,
        bad
    );
    if bad > 0 {
        2
    } else {
        0
    }
}
