//! Generator of mrasm source text (used where the real parser + translator are part of the
//! system under test: C12, C17). Restricted to the subset on which parse -> compile -> load is
//! total (consistent label case, forward .ORG only, DEC on registers only, images <= 240 bytes);
//! that is a workload restriction, not a claim about C06.
use crate::prng::Rng;

fn num(rng: &mut Rng, v: u8) -> String {
    match rng.below(4) {
        0 => format!("0x{:02X}", v),
        1 => format!("0x{:x}", v),
        2 => format!("0b{:b}", v),
        _ => format!("{}", v),
    }
}

fn mn(rng: &mut Rng, m: &str) -> String {
    match rng.below(4) {
        0 => m.to_lowercase(),
        1 => {
            let mut s = String::new();
            for (i, c) in m.chars().enumerate() {
                if i % 2 == 0 {
                    s.push(c.to_ascii_lowercase())
                } else {
                    s.push(c)
                }
            }
            s
        }
        _ => m.to_string(),
    }
}

fn reg(rng: &mut Rng) -> String {
    format!("R{}", rng.below(3))
}

fn line(rng: &mut Rng, out: &mut String, body: &str) {
    let indent = match rng.below(3) {
        0 => "",
        1 => "    ",
        _ => "\t",
    };
    out.push_str(indent);
    out.push_str(body);
    if rng.chance(1, 6) {
        out.push_str(" ; ");
        out.push_str(*rng.pick(&["note", "x = y", "würfel", "; ; ;", "0x12", "STOP"]));
    }
    out.push('\n');
}

/// one random register/ALU/memory instruction on the data area 0xA0..0xBF
fn simple_insn(rng: &mut Rng) -> String {
    let a = 0xA0 + rng.below(0x20) as u8;
    match rng.below(22) {
        0 => format!("{} {}", mn(rng, "CLR"), reg(rng)),
        1 => format!("{} {}, {}", mn(rng, "ADD"), reg(rng), reg(rng)),
        2 => format!("{} {}, {}", mn(rng, "ADC"), reg(rng), reg(rng)),
        3 => format!("{} {}, {}", mn(rng, "SUB"), reg(rng), reg(rng)),
        4 => format!("{} {}, {}", mn(rng, "MUL"), reg(rng), reg(rng)),
        5 => format!("{} {}, {}", mn(rng, "AND"), reg(rng), reg(rng)),
        6 => format!("{} {}, {}", mn(rng, "OR"), reg(rng), reg(rng)),
        7 => format!("{} {}, {}", mn(rng, "XOR"), reg(rng), reg(rng)),
        8 => format!("{} {}", mn(rng, "INC"), reg(rng)),
        9 => format!("{} {}", mn(rng, "DEC"), reg(rng)),
        10 => format!("{} {}", mn(rng, *rng.clone().pick(&["COM", "NEG", "LSR", "ASR", "LSL", "RRC", "RLC", "TST"])), reg(rng)),
        11 => {
            let k = rng.u8();
            format!("{} {}, {}", mn(rng, "LD"), reg(rng), num(rng, k))
        }
        12 => format!("{} {}, ({})", mn(rng, "LD"), reg(rng), num(rng, a)),
        13 => format!("{} ({}), {}", mn(rng, "ST"), num(rng, a), reg(rng)),
        14 => {
            let k = rng.u8();
            format!("{} {}, {}", mn(rng, "CMP"), reg(rng), num(rng, k))
        }
        15 => {
            let k = rng.u8();
            format!("{} ({}), {}", mn(rng, "BITS"), num(rng, a), num(rng, k))
        }
        16 => {
            let k = rng.u8();
            format!("{} ({}), {}", mn(rng, "BITC"), num(rng, a), num(rng, k))
        }
        17 => format!("{} (0xFF), {}", mn(rng, "ST"), reg(rng)),
        18 => format!("{} (0xFE), {}", mn(rng, "ST"), reg(rng)),
        19 => format!("{} {}, ({})", mn(rng, "LD"), reg(rng), num(rng, 0xFC + rng.clone().below(4) as u8)),
        20 => format!("{} {}, {}", mn(rng, "DIV"), reg(rng), reg(rng)),
        _ => mn(rng, "NOP"),
    }
}

#[derive(Clone, Copy, Debug, PartialEq)]
pub enum Family {
    Addition,
    BoardMirror,
    Counter,
    Interrupt,
    ErrorHalt,
    Random,
    InputCheck,
    /// copies the interrupt status register (0xF9) and the board status (0xF3) to the outputs in a loop
    StatusMirror,
    /// 36-46 labels / .EQU constants (the assembler's documented limit is 40 labels)
    ManyLabels,
}

/// Generate a program. Returns (source text, family).
pub fn program(rng: &mut Rng) -> (String, Family) {
    let fam = *rng.pick(&[Family::Addition, Family::BoardMirror, Family::Counter, Family::Interrupt, Family::ErrorHalt, Family::Random, Family::Random, Family::InputCheck, Family::StatusMirror, Family::ManyLabels]);
    let mut s = String::from("#! mrasm");
    if rng.chance(1, 4) {
        s.push_str(" ; header comment");
    }
    s.push('\n');
    if rng.chance(1, 3) {
        s.push('\n');
    }
    if rng.chance(1, 3) {
        let st = *rng.pick(&["0", "16", "32", "48", "64", "NOSET", "noset"]);
        line(rng, &mut s, &format!("*STACKSIZE {}", st));
    }
    if rng.chance(1, 4) {
        let ps = match rng.below(4) {
            0 => "AUTO".to_string(),
            1 => "NOSET".to_string(),
            2 => "255".to_string(),
            _ => format!("{}", 20 + rng.below(200)),
        };
        line(rng, &mut s, &format!("*PROGRAMSIZE {}", ps));
    }
    if rng.chance(1, 3) {
        line(rng, &mut s, ".ORG 0");
    }
    match fam {
        Family::Addition => {
            line(rng, &mut s, "LD R0, (0xFC)");
            line(rng, &mut s, "LD R1, (0xFD)");
            let op = *rng.pick(&["ADD", "SUB", "MUL", "XOR", "OR", "AND"]);
            line(rng, &mut s, &format!("{} R0, R1", op));
            line(rng, &mut s, "ST (0xFF), R0");
            line(rng, &mut s, "LD R2, (0xFE)");
            line(rng, &mut s, "ST (0xFE), R2");
            if rng.bool() {
                line(rng, &mut s, "STOP");
            } else {
                s.push_str("END:\n");
                line(rng, &mut s, "JR END");
            }
        }
        Family::BoardMirror => {
            // make the board / input configuration observable in the output registers
            let src = *rng.pick(&["0xF0", "0xF1", "0xF3", "0xFC", "0xFD", "0xFE", "0xFF"]);
            let src2 = *rng.pick(&["0xF0", "0xF1", "0xF1", "0xF3", "0xFF"]);
            line(rng, &mut s, &format!("LD R0, ({})", src));
            line(rng, &mut s, "ST (0xFE), R0");
            line(rng, &mut s, &format!("LD R1, ({})", src2));
            line(rng, &mut s, "ST (0xFF), R1");
            if rng.bool() {
                let k = rng.u8();
                let t = num(rng, k);
                line(rng, &mut s, &format!("LD R2, {}", t));
                line(rng, &mut s, "ST (0xF0), R2");
                line(rng, &mut s, "LD R0, (0xF1)");
                line(rng, &mut s, "ST (0xFE), R0");
            }
            line(rng, &mut s, "STOP");
        }
        Family::Counter => {
            line(rng, &mut s, "CLR R0");
            s.push_str("LOOP:\n");
            line(rng, &mut s, "INC R0");
            line(rng, &mut s, "ST (0xFF), R0");
            if rng.bool() {
                let k = 1 + rng.below(40) as u8;
                let t = num(rng, k);
                line(rng, &mut s, &format!("CMP R0, {}", t));
                line(rng, &mut s, "JZC LOOP");
                line(rng, &mut s, "ST (0xFE), R0");
                line(rng, &mut s, "STOP");
            } else {
                line(rng, &mut s, "JR LOOP");
            }
        }
        Family::Interrupt => {
            line(rng, &mut s, "JR MAIN");
            line(rng, &mut s, "JR ISR");
            s.push_str("MAIN:\n");
            line(rng, &mut s, "LDSP 0xEF");
            if rng.chance(5, 6) {
                line(rng, &mut s, "BITS (0xF9), 1");
            }
            if rng.chance(5, 6) {
                line(rng, &mut s, "EI");
            }
            line(rng, &mut s, "CLR R0");
            s.push_str("LOOP:\n");
            line(rng, &mut s, "INC R0");
            line(rng, &mut s, "ST (0xFE), R0");
            line(rng, &mut s, "JR LOOP");
            s.push_str("ISR:\n");
            line(rng, &mut s, "INC R1");
            line(rng, &mut s, "ST (0xFF), R1");
            if rng.chance(1, 5) {
                line(rng, &mut s, "STOP");
            }
            line(rng, &mut s, "RETI");
        }
        Family::ErrorHalt => {
            for _ in 0..rng.below(6) {
                let i = simple_insn(rng);
                line(rng, &mut s, &i);
            }
            match rng.below(4) {
                0 => line(rng, &mut s, ".DB 0"),
                1 => {
                    // stack pointer never initialised
                    line(rng, &mut s, "PUSH R0");
                    line(rng, &mut s, "STOP");
                }
                2 => {
                    line(rng, &mut s, "LDSP 0xEF");
                    s.push_str("DEEP:\n");
                    line(rng, &mut s, "CALL DEEP");
                }
                _ => {} // runs off the end of the program
            }
        }
        Family::Random => {
            line(rng, &mut s, "LDSP 0xEF");
            let n = 3 + rng.below(30);
            let mut labels = 0;
            for _ in 0..n {
                if rng.chance(1, 8) {
                    // forward skip
                    let c = *rng.pick(&["JR", "JCS", "JCC", "JZS", "JZC", "JNS", "JNC"]);
                    line(rng, &mut s, &format!("{} L{}", c, labels));
                    let i = simple_insn(rng);
                    line(rng, &mut s, &i);
                    s.push_str(&format!("L{}:\n", labels));
                    labels += 1;
                } else if rng.chance(1, 12) {
                    line(rng, &mut s, "PUSH R0");
                    let i = simple_insn(rng);
                    line(rng, &mut s, &i);
                    line(rng, &mut s, "POP R0");
                } else {
                    let i = simple_insn(rng);
                    line(rng, &mut s, &i);
                }
            }
            if rng.chance(3, 4) {
                line(rng, &mut s, "STOP");
            } else {
                s.push_str("SPIN:\n");
                line(rng, &mut s, "JR SPIN");
            }
            if rng.chance(1, 4) {
                line(rng, &mut s, ".DB 1, 0x02, 0b11");
                line(rng, &mut s, ".DW 0x1234");
            }
        }
        Family::ManyLabels => {
            let n = 36 + rng.below(11);
            let equ = rng.bool();
            for k in 0..n {
                if equ && k % 2 == 0 {
                    line(rng, &mut s, &format!(".EQU CONST{} {}", k, k));
                } else {
                    s.push_str(&format!("LBL{}:\n", k));
                    line(rng, &mut s, "INC R0");
                }
            }
            line(rng, &mut s, "ST (0xFF), R0");
            line(rng, &mut s, "STOP");
        }
        Family::StatusMirror => {
            if rng.bool() {
                line(rng, &mut s, "BITS (0xF9), 1");
            }
            s.push_str("LOOP:\n");
            line(rng, &mut s, "LD R0, (0xF9)");
            line(rng, &mut s, "ST (0xFF), R0");
            if rng.bool() {
                line(rng, &mut s, "LD R1, (0xF3)");
                line(rng, &mut s, "ST (0xFE), R1");
            } else {
                line(rng, &mut s, "OR R2, R0");
                line(rng, &mut s, "ST (0xFE), R2");
            }
            if rng.chance(1, 4) {
                let k = 1 + rng.below(12) as u8;
                let t = num(rng, k);
                line(rng, &mut s, "INC R1");
                line(rng, &mut s, &format!("CMP R1, {}", t));
                line(rng, &mut s, "JZC LOOP");
                line(rng, &mut s, "STOP");
            } else {
                line(rng, &mut s, "JR LOOP");
            }
        }
        Family::InputCheck => {
            s.push_str("START:\n");
            for a in ["0xFC", "0xFD", "0xFE", "0xFF"] {
                let k = rng.below(4) as u8;
                let t = num(rng, k);
                line(rng, &mut s, &format!("CMP ({}), {}", a, t));
                line(rng, &mut s, "JZC ERRX");
            }
            line(rng, &mut s, "LD R0, 0x2A");
            line(rng, &mut s, "ST (0xFF), R0");
            line(rng, &mut s, "STOP");
            s.push_str("ERRX:\n");
            line(rng, &mut s, ".DB 0");
        }
    }
    if rng.chance(1, 3) {
        s.pop(); // no trailing newline
    }
    (s, fam)
}

/// a source text the parser must reject
pub fn broken_program(rng: &mut Rng) -> String {
    let (good, _) = program(rng);
    match rng.below(6) {
        0 => good.replacen("#! mrasm", "#! masm", 1),
        1 => format!("{}\n    JR NOWHERE_LABEL\n", good.trim_end()),
        2 => format!("{}\n    LD R0, 256\n", good.trim_end()),
        3 => format!("{}\n    ADD R0\n", good.trim_end()),
        4 => format!("{}\n    FROB R1, R2\n", good.trim_end()),
        _ => String::from("CLR R0\n"),
    }
}
