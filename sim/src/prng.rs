//! The only source of randomness in the harness: SplitMix64 seeding xoshiro256**.
//! Own implementation so that streams never change with a crate version.

#[derive(Clone, Debug)]
pub struct Rng {
    s: [u64; 4],
}

pub fn splitmix(x: &mut u64) -> u64 {
    *x = x.wrapping_add(0x9E37_79B9_7F4A_7C15);
    let mut z = *x;
    z = (z ^ (z >> 30)).wrapping_mul(0xBF58_476D_1CE4_E5B9);
    z = (z ^ (z >> 27)).wrapping_mul(0x94D0_49BB_1331_11EB);
    z ^ (z >> 31)
}

/// Seed of run `idx` of a batch seeded with `seed` (independent of worker count).
pub fn run_seed(seed: u64, stream: u64, idx: u64) -> u64 {
    let mut x = seed ^ stream.wrapping_mul(0xD6E8_FEB8_6659_FD93);
    let a = splitmix(&mut x);
    let mut y = a ^ idx.wrapping_mul(0xA076_1D64_78BD_642F);
    splitmix(&mut y)
}

impl Rng {
    pub fn new(seed: u64) -> Self {
        let mut x = seed;
        let s = [
            splitmix(&mut x),
            splitmix(&mut x),
            splitmix(&mut x),
            splitmix(&mut x),
        ];
        Rng { s }
    }
    #[inline]
    pub fn next_u64(&mut self) -> u64 {
        let result = self.s[1].wrapping_mul(5).rotate_left(7).wrapping_mul(9);
        let t = self.s[1] << 17;
        self.s[2] ^= self.s[0];
        self.s[3] ^= self.s[1];
        self.s[1] ^= self.s[2];
        self.s[0] ^= self.s[3];
        self.s[2] ^= t;
        self.s[3] = self.s[3].rotate_left(45);
        result
    }
    #[inline]
    pub fn u8(&mut self) -> u8 {
        (self.next_u64() >> 56) as u8
    }
    #[inline]
    pub fn u32(&mut self) -> u32 {
        (self.next_u64() >> 32) as u32
    }
    /// uniform in 0..n (n > 0)
    #[inline]
    pub fn below(&mut self, n: u64) -> u64 {
        debug_assert!(n > 0);
        // multiply-shift; bias is irrelevant for our purposes but keep it tiny
        ((self.next_u64() as u128 * n as u128) >> 64) as u64
    }
    #[inline]
    pub fn range(&mut self, lo: u64, hi_incl: u64) -> u64 {
        lo + self.below(hi_incl - lo + 1)
    }
    #[inline]
    pub fn usize(&mut self, n: usize) -> usize {
        self.below(n as u64) as usize
    }
    #[inline]
    pub fn bool(&mut self) -> bool {
        self.next_u64() >> 63 == 1
    }
    /// true with probability num/den
    #[inline]
    pub fn chance(&mut self, num: u64, den: u64) -> bool {
        self.below(den) < num
    }
    pub fn pick<'a, T>(&mut self, xs: &'a [T]) -> &'a T {
        &xs[self.usize(xs.len())]
    }
    pub fn fork(&mut self) -> Rng {
        Rng::new(self.next_u64())
    }
}
