//! R-ISA: instruction-level reference interpreter of the Minirechner 2a, plus R-COST.
//!
//! One call executes one whole instruction. The model knows nothing about micro-steps' internals,
//! scratch registers R6/R7, ALU select codes or pending writes; it shares no code with /repo.
//! Source of each rule: "P" property statement, "D" repository documentation, "G" golden
//! (behaviour of the pinned tree, calibrated while building the model) — see DESIGN.md App. A.
//!
//! R-COST: the number of clock edges from one instruction boundary to the next is
//!   steps(instruction) + 1 (the fetch step of the following opcode)
//!   + #{bus accesses of the interval at addresses <= 0xEF}
//! where the accesses are: this instruction's own opcode fetch, its operand / second-opcode
//! fetches, its data reads and writes — exactly the list this interpreter records.
use crate::boardref::BoardRef;

#[derive(Clone, Copy, Debug, PartialEq, Eq)]
pub enum RState {
    Running,
    Stopped,
    Error,
}

/// What the next instruction boundary of the SUT corresponds to.
#[derive(Clone, Copy, Debug, PartialEq, Eq)]
pub enum Pending {
    /// a normal instruction at PC
    Insn,
    /// right after power-on / reset / load: the first edge executes the opcode fetch, no instruction
    ResetFetch,
    /// CONTINUE after STOP: the already loaded STOP behaves as a NOP (incl. interrupt sampling)
    ContinueNop,
}

pub const F_C: u8 = 1;
pub const F_Z: u8 = 2;
pub const F_N: u8 = 4;
pub const F_IE: u8 = 8;

#[derive(Clone, Copy, Debug, PartialEq, Eq)]
pub enum Class {
    Reset,
    ErrorOp,
    Stop,
    Nop,
    Clr,
    Ei,
    Di,
    Push,
    Pop,
    PushF,
    PopF,
    Jr,
    Call,
    Reti,
    Com,
    Neg,
    Lsr,
    Asr,
    Rrc,
    Inc,
    Tst,
    Dec,
    DecMem,
    Add,
    Adc,
    Sub,
    And,
    Or,
    Mul,
    Div,
    Xor,
    Mov,
    Cmp,
    Bitt,
    Ldsp,
    Ldfr,
    Bits,
    Bitc,
    Undefined1,
    Undefined2,
    /// second byte 0x02..0x0F: falls into the interrupt-entry block; completes, result unspecified
    Unspec2,
}

pub const MAX_ACC: usize = 10;

#[derive(Clone, Debug)]
pub struct StepInfo {
    pub class: Class,
    pub op: u8,
    pub op2: Option<u8>,
    /// micro-steps of the instruction, excluding the next fetch step and all waits
    pub steps: u32,
    /// bus addresses accessed in order (one entry per accessing micro-step), including the opcode fetch
    pub acc: [u8; MAX_ACC],
    /// kind of each access: 0 opcode / second-opcode fetch, 1 read, 2 write
    pub acc_kind: [u8; MAX_ACC],
    pub nacc: usize,
    /// the end of this instruction samples (and clears) the key flip-flop
    pub samples: bool,
    /// instruction reaches a next boundary at all (false: undefined opcode, or halted)
    pub completes: bool,
    /// result not specified by any property: lock-step resynchronises instead of comparing
    pub unspecified: bool,
    /// instruction wrote to 0xF9 (MICR): press landing inside may see old or new enable bit
    pub micr_before: u8,
    /// the machine halted during this instruction (STOP / 0x00 / supervision)
    pub halted: bool,
    /// value of the register (SP or PC) that broke the supervision rule
    pub bad_sp: Option<u8>,
    pub bad_pc: Option<u8>,
    /// an interrupt entry followed the instruction (filled by `enter_interrupt`)
    pub interrupted: bool,
    /// RAM bytes written by this instruction (addr, old, new) — for the torn-instruction oracle
    pub writes: [(u8, u8, u8); 4],
    pub nwrites: usize,
}

impl StepInfo {
    fn new(class: Class) -> Self {
        StepInfo {
            class,
            op: 0,
            op2: None,
            steps: 0,
            acc: [0; MAX_ACC],
            acc_kind: [0; MAX_ACC],
            nacc: 0,
            samples: true,
            completes: true,
            unspecified: false,
            micr_before: 0,
            halted: false,
            bad_sp: None,
            bad_pc: None,
            interrupted: false,
            writes: [(0, 0, 0); 4],
            nwrites: 0,
        }
    }
    pub fn waits(&self) -> u32 {
        self.acc[..self.nacc].iter().filter(|a| **a <= 0xEF).count() as u32
    }
    /// R-COST: edges from the boundary that fetched this instruction to the next boundary.
    pub fn cost(&self) -> u32 {
        self.steps + 1 + self.waits()
    }
}

/// Values the SUT returns for the I/O addresses 0xF0..0xFF right before the instruction; used
/// only for bits no property specifies (see `Ref::rd`).
pub type IoHint = [u8; 16];

#[derive(Clone, Debug, PartialEq)]
pub struct Ref {
    /// R0, R1, R2, PC
    pub r: [u8; 4],
    pub fr: u8,
    pub sp: u8,
    pub ram: [u8; 240],
    pub inputs: [u8; 4],
    pub out: [u8; 2],
    pub micr: u8,
    pub board: BoardRef,
    /// key-interrupt flip-flop
    pub iff: bool,
    /// the flip-flop was set when an instruction end sampled it with IE clear. No property says
    /// whether the press is then forgotten or held until IE is set again (the pinned tree forgets
    /// it), so from here on the reference follows the SUT until the question resolves itself.
    pub iff_unknown: bool,
    pub state: RState,
    /// 0,16,32,48,64
    pub stack: u8,
    /// Some(n): PC <= n; None: no program ever loaded (PC must be 0)
    pub limit: Option<u8>,
    pub pending: Pending,
    /// opcode byte latched by the fetch step at the last boundary (the real machine reads it at
    /// the boundary edge; later changes of that byte do not affect the instruction)
    pub latch: u8,
    /// true: what a program reads from the board registers 0xF1-0xF3 is taken from the SUT (the
    /// board's status is the business of C10/C14, not of the CPU properties); false: from R-BOARD
    pub board_reads_from_hint: bool,
}

pub fn sp_valid(stack: u8, sp: u8) -> bool {
    if sp >= 0xF0 {
        return false;
    }
    // one forbidden band per stack size: the 14 bytes below the stack area
    let (lo, hi) = match stack {
        16 => (0xD1, 0xDE),
        32 => (0xC1, 0xCE),
        48 => (0xB1, 0xBE),
        64 => (0xA1, 0xAE),
        _ => return true,
    };
    !(sp >= lo && sp <= hi)
}

pub fn pc_valid(limit: Option<u8>, pc: u8) -> bool {
    match limit {
        Some(n) => pc <= n,
        None => pc == 0,
    }
}

fn zn(v: u8) -> u8 {
    (if v == 0 { F_Z } else { 0 }) | (if v & 0x80 != 0 { F_N } else { 0 })
}

impl Ref {
    pub fn power_on() -> Self {
        Ref {
            r: [0; 4],
            fr: 0,
            sp: 0,
            ram: [0; 240],
            inputs: [0; 4],
            out: [0; 2],
            micr: 0,
            board: BoardRef::new(),
            iff: false,
            iff_unknown: false,
            state: RState::Running,
            stack: 16,
            limit: None,
            pending: Pending::ResetFetch,
            latch: 0,
            board_reads_from_hint: true,
        }
    }

    /// The opcode fetch of the next instruction: happens at the boundary edge.
    pub fn prefetch(&mut self, io: &IoHint) {
        self.latch = self.peek(self.r[3], io);
    }

    /// program load = master reset + RAM image followed by zeros + limits (C07 statement)
    pub fn load(&mut self, bytes: &[u8], stack: u8, limit: Option<u8>) {
        self.master_reset();
        self.ram = [0; 240];
        for (i, b) in bytes.iter().enumerate().take(240) {
            self.ram[i] = *b;
        }
        if matches!(stack, 0 | 16 | 32 | 48 | 64) {
            self.stack = stack;
        }
        self.limit = Some(match limit {
            Some(n) => n,
            None => bytes.len().min(255) as u8,
        });
    }

    /// load of an image that may say *PROGRAMSIZE NOSET (the limit in force is kept)
    pub fn load_image(&mut self, bytes: &[u8], stack: u8, limit: Option<u8>, keep_limit: bool) {
        let prev = self.limit;
        self.load(bytes, stack, limit);
        if keep_limit {
            self.limit = prev;
        }
    }

    pub fn cpu_reset(&mut self) {
        self.r = [0; 4];
        self.fr = 0;
        self.sp = 0;
        self.out = [0; 2];
        self.micr = 0;
        self.iff = false;
        self.iff_unknown = false;
        self.state = RState::Running;
        self.pending = Pending::ResetFetch;
    }

    pub fn master_reset(&mut self) {
        self.cpu_reset();
        self.inputs = [0; 4];
        self.board.master_reset();
    }

    pub fn key_continue(&mut self) {
        if self.state == RState::Stopped {
            self.state = RState::Running;
            self.pending = Pending::ContinueNop;
        }
    }

    /// key press: sets the flip-flop iff the key-edge enable bit is set (P)
    pub fn key_interrupt(&mut self, enabled: bool) {
        if enabled {
            self.iff = true;
        }
    }

    pub fn key_enabled(&self) -> bool {
        self.micr & 1 != 0
    }

    // ---- bus ---------------------------------------------------------------------------------
    pub fn peek(&self, a: u8, io: &IoHint) -> u8 {
        match a {
            0..=0xEF => self.ram[a as usize],
            0xF0 => self.board.di1,
            0xF1..=0xF3 if self.board_reads_from_hint => io[(a - 0xF0) as usize],
            0xF1 => (self.board.dasr() & !0x20) | (io[1] & 0x20),
            0xF2 => {
                if self.board.fan_period_ok(io[2]) {
                    io[2]
                } else {
                    self.board.fan_period()
                }
            }
            0xF3 => (self.board.daisr() & 0x03) | (io[3] & 0xFC),
            0xF4..=0xFB => io[(a - 0xF0) as usize],
            _ => self.inputs[(a - 0xFC) as usize],
        }
    }

    fn rd(&mut self, a: u8, io: &IoHint, info: &mut StepInfo) -> u8 {
        if info.nacc < MAX_ACC {
            info.acc[info.nacc] = a;
            info.acc_kind[info.nacc] = if info.nacc == 0 { 0 } else { 1 };
            info.nacc += 1;
        }
        if a >= 0xF4 && a <= 0xFB {
            // no property says what these addresses return (MISR, UART, unused): the value is taken
            // from the SUT and the instruction's result is not compared
            info.unspecified = true;
        }
        self.peek(a, io)
    }

    pub fn poke(&mut self, a: u8, v: u8) {
        match a {
            0..=0xEF => self.ram[a as usize] = v,
            0xF0..=0xF3 => self.board.write(a, v),
            0xF9 => self.micr = v & 0x3F,
            0xFE => self.out[0] = v,
            0xFF => self.out[1] = v,
            _ => {}
        }
    }

    fn wr(&mut self, a: u8, v: u8, info: &mut StepInfo) {
        if info.nacc < MAX_ACC {
            info.acc[info.nacc] = a;
            info.acc_kind[info.nacc] = 2;
            info.nacc += 1;
        }
        if a <= 0xEF && info.nwrites < 4 {
            info.writes[info.nwrites] = (a, self.ram[a as usize], v);
            info.nwrites += 1;
        }
        self.poke(a, v);
    }

    // ---- registers with supervision ------------------------------------------------------------
    fn set_pc(&mut self, v: u8, info: &mut StepInfo) {
        self.r[3] = v;
        if !pc_valid(self.limit, v) && self.state == RState::Running {
            self.state = RState::Error;
            info.bad_pc = Some(v);
        } else if !sp_valid(self.stack, self.sp) && self.state == RState::Running {
            self.state = RState::Error;
            info.bad_sp = Some(self.sp);
        }
    }
    fn set_sp(&mut self, v: u8, info: &mut StepInfo) {
        self.sp = v;
        if !sp_valid(self.stack, v) && self.state == RState::Running {
            self.state = RState::Error;
            info.bad_sp = Some(v);
        } else if !pc_valid(self.limit, self.r[3]) && self.state == RState::Running {
            self.state = RState::Error;
            info.bad_pc = Some(self.r[3]);
        }
    }
    fn set_reg(&mut self, i: usize, v: u8, info: &mut StepInfo) {
        if i == 3 {
            self.set_pc(v, info)
        } else {
            self.r[i] = v
        }
    }
    fn set_czn(&mut self, c: bool, v: u8) {
        self.fr = (self.fr & !(F_C | F_Z | F_N)) | (c as u8) | zn(v);
    }

    fn halted(&self) -> bool {
        self.state != RState::Running
    }

    // ---- the interpreter -------------------------------------------------------------------------
    /// Execute what lies between the current boundary and the next one (without interrupt entry).
    pub fn step(&mut self, io: &IoHint) -> StepInfo {
        match self.pending {
            Pending::ResetFetch => {
                self.pending = Pending::Insn;
                let mut info = StepInfo::new(Class::Reset);
                info.steps = 0;
                info.micr_before = self.micr;
                // the NOP word at micro-address 0 samples, but reset cleared flip-flop and IE
                info.samples = true;
                return info;
            }
            Pending::ContinueNop => {
                self.pending = Pending::Insn;
                let mut info = StepInfo::new(Class::Stop);
                info.op = 0x01;
                info.steps = 0;
                info.micr_before = self.micr;
                info.samples = true;
                return info;
            }
            Pending::Insn => {}
        }
        let mut info = StepInfo::new(Class::Nop);
        info.micr_before = self.micr;
        let pc0 = self.r[3];
        // the opcode was read at the previous boundary edge; its wait state falls into this interval
        let op = self.latch;
        let _ = self.rd(pc0, io, &mut info);
        if pc0 >= 0xF4 && pc0 <= 0xFB {
            info.unspecified = true;
        }
        info.op = op;
        self.set_pc(pc0.wrapping_add(1), &mut info);
        // The IR load and the commit of PC+1 happen at the same edge; byte 0x00 / 0x01 halt there.
        if op == 0x00 {
            info.class = Class::ErrorOp;
            self.state = RState::Error;
            info.halted = true;
            info.completes = false;
            return info;
        }
        if self.halted() {
            // PC+1 broke the program-size rule at the very edge the opcode was loaded
            info.halted = true;
            info.completes = false;
            info.class = if op == 0x01 { Class::Stop } else { Class::Nop };
            return info;
        }
        if op == 0x01 {
            info.class = Class::Stop;
            self.state = RState::Stopped;
            info.halted = true;
            info.completes = false;
            info.steps = 1;
            return info;
        }
        let r = (op & 3) as usize;
        let s = ((op >> 2) & 3) as usize;
        match op {
            0x02 | 0x03 => {
                info.class = Class::Nop;
                info.steps = 1;
            }
            0x04..=0x07 => {
                info.class = Class::Clr;
                info.steps = 1;
                self.set_reg(r, 0, &mut info);
            }
            0x08..=0x0B => {
                info.class = Class::Ei;
                info.steps = 2;
                info.samples = false;
                self.fr |= 0xF8; // G: upper bits set as well
            }
            0x0C..=0x0F => {
                info.class = Class::Di;
                info.steps = 2;
                info.samples = false;
                self.fr &= 0x07; // G
            }
            0x10..=0x13 => {
                info.class = Class::Push;
                info.steps = 3;
                let v = self.r[r];
                let sp = self.sp.wrapping_sub(1);
                self.set_sp(sp, &mut info);
                if !self.halted() {
                    self.wr(sp, v, &mut info);
                }
            }
            0x14..=0x17 => {
                info.class = Class::Pop;
                info.steps = 3;
                let v = self.rd(self.sp, io, &mut info);
                self.set_reg(r, v, &mut info);
                if !self.halted() {
                    let sp = self.sp.wrapping_add(1);
                    self.set_sp(sp, &mut info);
                }
            }
            0x18..=0x1B => {
                info.class = Class::PushF;
                info.steps = 3;
                let v = self.fr;
                let sp = self.sp.wrapping_sub(1);
                self.set_sp(sp, &mut info);
                if !self.halted() {
                    self.wr(sp, v, &mut info);
                }
            }
            0x1C..=0x1F => {
                info.class = Class::PopF;
                info.steps = 2;
                let v = self.rd(self.sp, io, &mut info);
                self.fr = v;
                let sp = self.sp.wrapping_add(1);
                self.set_sp(sp, &mut info);
            }
            0x20..=0x27 => {
                info.class = Class::Jr;
                info.steps = 2;
                let c = self.fr & F_C != 0;
                let z = self.fr & F_Z != 0;
                let n = self.fr & F_N != 0;
                let taken = match op & 7 {
                    0 => true,
                    1 => c,
                    2 => z,
                    3 => n,
                    4 => false,
                    5 => !c,
                    6 => !z,
                    _ => !n,
                };
                let pc = self.r[3];
                if taken {
                    let off = self.rd(pc, io, &mut info);
                    self.set_pc(pc.wrapping_add(1).wrapping_add(off), &mut info);
                } else {
                    self.set_pc(pc.wrapping_add(1), &mut info);
                }
            }
            0x28..=0x2B => {
                info.class = Class::Call;
                info.steps = 5;
                let sp = self.sp.wrapping_sub(1);
                self.set_sp(sp, &mut info);
                if !self.halted() {
                    let opnd = self.r[3];
                    let ret = opnd.wrapping_add(1);
                    self.set_pc(ret, &mut info);
                    if !self.halted() {
                        self.wr(sp, ret, &mut info);
                        // the target is read after the push (matters when the stack overlays the operand)
                        let a = self.rd(opnd, io, &mut info);
                        self.set_pc(a, &mut info);
                    }
                }
            }
            0x2C..=0x2F => {
                info.class = Class::Reti;
                info.steps = 4;
                info.samples = false;
                let pc = self.rd(self.sp, io, &mut info);
                self.set_pc(pc, &mut info);
                if !self.halted() {
                    let sp = self.sp.wrapping_add(1);
                    self.set_sp(sp, &mut info);
                    if !self.halted() {
                        let f = self.rd(sp, io, &mut info);
                        self.fr = f;
                        self.set_sp(sp.wrapping_add(1), &mut info);
                    }
                }
            }
            0x30..=0x33 => {
                info.class = Class::Com;
                info.steps = 1;
                let v = !self.r[r];
                self.set_czn(false, v);
                self.set_reg(r, v, &mut info);
            }
            0x34..=0x37 => {
                info.class = Class::Neg;
                info.steps = 2;
                let old = self.r[r];
                // COM (a PC write when r = 3!) then INC
                let t = !old;
                self.set_reg(r, t, &mut info);
                if !self.halted() {
                    let v = t.wrapping_add(1);
                    self.set_czn(t == 0xFF, v);
                    self.set_reg(r, v, &mut info);
                }
            }
            0x38..=0x3B => {
                info.class = Class::Lsr;
                info.steps = 1;
                let a = self.r[r];
                let v = a >> 1;
                self.set_czn(a & 1 != 0, v);
                self.set_reg(r, v, &mut info);
            }
            0x3C..=0x3F => {
                info.class = Class::Asr;
                info.steps = 1;
                let a = self.r[r];
                let v = (a >> 1) | (a & 0x80);
                self.set_czn(a & 1 != 0, v);
                self.set_reg(r, v, &mut info);
            }
            0x40..=0x43 => {
                info.class = Class::Rrc;
                info.steps = 1;
                let a = self.r[r];
                let v = (a >> 1) | ((self.fr & F_C) << 7);
                self.set_czn(a & 1 != 0, v);
                self.set_reg(r, v, &mut info);
            }
            0x44..=0x47 => {
                info.class = Class::Inc;
                info.steps = 1;
                let a = self.r[r];
                let v = a.wrapping_add(1);
                self.set_czn(a == 0xFF, v);
                self.set_reg(r, v, &mut info);
            }
            0x48..=0x4B => {
                info.class = Class::Tst;
                info.steps = 1;
                let a = self.r[r];
                self.set_czn(false, a);
            }
            0x4C..=0x4F | 0xE0..=0xEF => {
                info.class = Class::Undefined1;
                info.completes = false;
                info.unspecified = true;
            }
            0x50..=0x53 => {
                info.class = Class::Dec;
                info.steps = 1;
                let a = self.r[r];
                let v = a.wrapping_sub(1);
                self.set_czn(a == 0, v);
                self.set_reg(r, v, &mut info);
            }
            0x54..=0x5F => {
                // DEC on a memory operand (not emitted by the assembler; G)
                info.class = Class::DecMem;
                let m = (op >> 2) & 3; // 1,2,3
                let p = self.r[r];
                match m {
                    1 => {
                        info.steps = 3;
                        let a = self.rd(p, io, &mut info);
                        let v = a.wrapping_sub(1);
                        self.set_czn(a == 0, v);
                        self.wr(p, v, &mut info);
                    }
                    2 => {
                        info.steps = 4;
                        let a = self.rd(p, io, &mut info);
                        let v = a.wrapping_sub(1);
                        self.set_czn(a == 0, v);
                        self.wr(p, v, &mut info);
                        let nv = self.r[r].wrapping_add(1);
                        self.set_reg(r, nv, &mut info);
                    }
                    _ => {
                        info.steps = 5;
                        let q = self.rd(p, io, &mut info);
                        let a = self.rd(q, io, &mut info);
                        let v = a.wrapping_sub(1);
                        self.set_czn(a == 0, v);
                        self.wr(q, v, &mut info);
                        let nv = self.r[r].wrapping_add(1);
                        self.set_reg(r, nv, &mut info);
                    }
                }
            }
            0x60..=0x6F => {
                info.class = Class::Add;
                info.steps = 1;
                let (a, b) = (self.r[r], self.r[s]);
                let t = a as u16 + b as u16;
                self.set_czn(t > 0xFF, t as u8);
                self.set_reg(r, t as u8, &mut info);
            }
            0x70..=0x7F => {
                info.class = Class::Adc;
                info.steps = 1;
                let (a, b) = (self.r[r], self.r[s]);
                let t = a as u16 + b as u16 + (self.fr & F_C) as u16;
                self.set_czn(t > 0xFF, t as u8);
                self.set_reg(r, t as u8, &mut info);
            }
            0x80..=0x8F => {
                info.class = Class::Sub;
                info.steps = 3;
                let (a, b) = (self.r[r], self.r[s]);
                let v = a.wrapping_sub(b);
                self.set_czn(a < b, v); // P: carry = borrow
                self.set_reg(r, v, &mut info);
            }
            0x90..=0x9F => {
                info.class = Class::And;
                info.steps = 6;
                let v = self.r[r] & self.r[s];
                self.set_czn(false, v);
                self.set_reg(r, v, &mut info);
            }
            0xA0..=0xAF => {
                info.class = Class::Or;
                info.steps = 4;
                let v = self.r[r] | self.r[s];
                self.set_czn(false, v);
                self.set_reg(r, v, &mut info);
            }
            0xB0..=0xBF => {
                info.class = Class::Mul;
                let (a, b) = (self.r[r], self.r[s]);
                let p = a as u16 * b as u16;
                let n = 8 - a.leading_zeros();
                let k = a.count_ones();
                info.steps = 3 + 2 * n.max(1) + k + n.saturating_sub(1);
                // P: carry exactly when the product exceeds 255
                self.set_czn(p > 0xFF, p as u8);
                if r == 3 {
                    // the multiplier register is shifted right in place while the loop runs: every
                    // intermediate value is a PC write (supervision sees them)
                    let mut t = a;
                    for _ in 0..n.max(1) {
                        t >>= 1;
                        self.set_pc(t, &mut info);
                        if self.halted() {
                            break;
                        }
                    }
                }
                if !self.halted() {
                    self.set_reg(r, p as u8, &mut info);
                }
            }
            0xC0..=0xCF => {
                info.class = Class::Div;
                let (a, b) = (self.r[r], self.r[s]);
                if b == 0 {
                    info.steps = 4;
                    self.fr = (self.fr & !(F_C | F_Z | F_N)) | F_C | F_N; // P
                    self.set_reg(r, 0xFF, &mut info);
                } else {
                    let q = a / b;
                    info.steps = 5 + 2 * q as u32;
                    self.set_czn(false, q);
                    if r == 3 {
                        // repeated subtraction happens in place: intermediate PC writes
                        let mut t = a;
                        for _ in 0..=q {
                            t = t.wrapping_sub(b);
                            self.set_pc(t, &mut info);
                            if self.halted() {
                                break;
                            }
                        }
                    }
                    if !self.halted() {
                        self.set_reg(r, q, &mut info);
                    }
                }
            }
            0xD0..=0xDF => {
                info.class = Class::Xor;
                info.steps = 7;
                let (a, b) = (self.r[r], self.r[s]);
                let v = a ^ b;
                self.set_czn(false, v);
                if r == 3 {
                    // G: the routine first stores NOR(Rd,Rs) into Rd
                    self.set_pc(!(a | b), &mut info);
                }
                if !self.halted() {
                    self.set_reg(r, v, &mut info);
                }
            }
            0xF0..=0xFF => {
                self.two_byte(op, io, &mut info);
            }
            _ => unreachable!(),
        }
        if self.halted() {
            info.halted = true;
            info.completes = false;
        }
        info
    }

    fn two_byte(&mut self, op: u8, io: &IoHint, info: &mut StepInfo) {
        let r = (op & 3) as usize;
        let m = (op >> 2) & 3;
        // ---- source ----
        let src = match m {
            0 => {
                info.steps = 1;
                self.r[r]
            }
            1 => {
                info.steps = 1;
                self.rd(self.r[r], io, info)
            }
            2 => {
                info.steps = 2;
                let v = self.rd(self.r[r], io, info);
                let nv = self.r[r].wrapping_add(1);
                self.set_reg(r, nv, info);
                v
            }
            _ => {
                info.steps = 3;
                let p = self.rd(self.r[r], io, info);
                let v = self.rd(p, io, info);
                let nv = self.r[r].wrapping_add(1);
                self.set_reg(r, nv, info);
                v
            }
        };
        if self.halted() {
            return;
        }
        // ---- second opcode ----
        info.steps += 1;
        let pc = self.r[3];
        let op2 = self.rd(pc, io, info);
        info.acc_kind[info.nacc - 1] = 0;
        info.op2 = Some(op2);
        self.set_pc(pc.wrapping_add(1), info);
        if op2 == 0x00 {
            self.state = RState::Error;
            info.class = Class::ErrorOp;
            return;
        }
        if self.halted() {
            return;
        }
        if op2 == 0x01 {
            self.state = RState::Stopped;
            info.class = Class::Stop;
            info.unspecified = true; // G: what CONTINUE does after a STOP as second byte is not specified
            return;
        }
        let d = (op2 & 3) as usize;
        let dm = (op2 >> 2) & 3;
        match op2 >> 4 {
            0 => {
                info.class = Class::Unspec2;
                info.unspecified = true;
            }
            1 => {
                info.class = Class::Mov;
                match dm {
                    0 => {
                        info.steps += 1;
                        self.set_reg(d, src, info);
                    }
                    1 => {
                        info.steps += 1;
                        let a = self.r[d];
                        self.wr(a, src, info);
                    }
                    2 => {
                        info.steps += 2;
                        let a = self.r[d];
                        self.wr(a, src, info);
                        let nv = self.r[d].wrapping_add(1);
                        self.set_reg(d, nv, info);
                    }
                    _ => {
                        info.steps += 3;
                        let p = self.rd(self.r[d], io, info);
                        self.wr(p, src, info);
                        let nv = self.r[d].wrapping_add(1);
                        self.set_reg(d, nv, info);
                    }
                }
            }
            2 | 3 => {
                // CMP / BITT: destination operand is only read
                let cmp = op2 >> 4 == 2;
                info.class = if cmp { Class::Cmp } else { Class::Bitt };
                let base = if cmp { 3 } else { 4 };
                let dst = match dm {
                    0 => {
                        info.steps += base;
                        self.r[d]
                    }
                    1 => {
                        info.steps += base;
                        self.rd(self.r[d], io, info)
                    }
                    2 => {
                        info.steps += base + 1;
                        let v = self.rd(self.r[d], io, info);
                        let nv = self.r[d].wrapping_add(1);
                        self.set_reg(d, nv, info);
                        v
                    }
                    _ => {
                        info.steps += base + 2;
                        let p = self.rd(self.r[d], io, info);
                        let v = self.rd(p, io, info);
                        let nv = self.r[d].wrapping_add(1);
                        self.set_reg(d, nv, info);
                        v
                    }
                };
                if self.halted() {
                    return;
                }
                if cmp {
                    self.set_czn(dst < src, dst.wrapping_sub(src)); // P: borrow
                } else {
                    self.set_czn(false, dst & src);
                }
            }
            4 => match dm {
                0 => {
                    info.class = Class::Ldsp;
                    info.steps += 1;
                    self.set_czn(false, src); // G
                    self.set_sp(src, info);
                }
                1 => {
                    info.class = Class::Ldfr;
                    info.steps += 1;
                    self.fr = src;
                }
                _ => {
                    info.class = Class::Undefined2;
                    info.completes = false;
                    info.unspecified = true;
                }
            },
            5 | 6 => {
                let bits = op2 >> 4 == 5;
                info.class = if bits { Class::Bits } else { Class::Bitc };
                let f = |dst: u8| if bits { dst | src } else { dst & !src };
                match dm {
                    0 => {
                        info.steps += if bits { 3 } else { 4 };
                        let v = f(self.r[d]);
                        self.set_czn(false, v);
                        self.set_reg(d, v, info);
                    }
                    1 => {
                        info.steps += if bits { 3 } else { 4 };
                        let a = self.r[d];
                        let v = f(self.rd(a, io, info));
                        self.set_czn(false, v);
                        self.wr(a, v, info);
                    }
                    2 => {
                        info.steps += if bits { 4 } else { 5 };
                        let a = self.r[d];
                        let v = f(self.rd(a, io, info));
                        self.set_czn(false, v);
                        self.wr(a, v, info);
                        let nv = self.r[d].wrapping_add(1);
                        self.set_reg(d, nv, info);
                    }
                    _ => {
                        info.steps += if bits { 5 } else { 7 };
                        let p = self.rd(self.r[d], io, info);
                        let v = f(self.rd(p, io, info));
                        self.set_czn(false, v);
                        let p2 = if bits {
                            p
                        } else {
                            // G: BITC re-reads the pointer before the write
                            self.rd(self.r[d], io, info)
                        };
                        self.wr(p2, v, info);
                        let nv = self.r[d].wrapping_add(1);
                        self.set_reg(d, nv, info);
                    }
                }
            }
            _ => {
                info.class = Class::Undefined2;
                info.completes = false;
                info.unspecified = true;
            }
        }
    }

    /// Interrupt entry (P): push FR, push the address of the next instruction, clear IE, PC := 2.
    /// Returns (extra steps incl. the `int:` word, accesses of the two pushes).
    pub fn enter_interrupt(&mut self, info: &mut StepInfo) {
        info.interrupted = true;
        info.steps += 8;
        let sp1 = self.sp.wrapping_sub(1);
        self.set_sp(sp1, info);
        if self.halted() {
            info.halted = true;
            info.completes = false;
            return;
        }
        let fr = self.fr;
        self.wr(sp1, fr, info);
        let sp2 = sp1.wrapping_sub(1);
        self.set_sp(sp2, info);
        if self.halted() {
            info.halted = true;
            info.completes = false;
            return;
        }
        let pc = self.r[3];
        self.wr(sp2, pc, info);
        self.fr &= 0x07; // G: upper bits cleared together with IE
        self.set_pc(2, info);
        if self.halted() {
            info.halted = true;
            info.completes = false;
        }
    }

    /// cost of an interrupt entry that starts with stack pointer `sp` (8 steps + waits of the pushes)
    pub fn entry_cost(sp: u8) -> u32 {
        let a = sp.wrapping_sub(1);
        let b = sp.wrapping_sub(2);
        8 + (a <= 0xEF) as u32 + (b <= 0xEF) as u32
    }
}
