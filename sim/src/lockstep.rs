//! The machine engine's lock-step executor: the real `Machine` clocked edge by edge next to the
//! R-ISA reference, with outside stimuli applied between edges (DESIGN.md 2.2).
use crate::boardref::{DAISR_SPEC_MASK, DASR_SPEC_MASK};
use crate::driver::Violation;
use crate::isa::{Class, IoHint, Pending, RState, Ref, StepInfo, F_IE};
use crate::sut::{state_name, Setup, Stim};
use emulator_2a_lib::machine::{Machine, State, StepMode};

/// more edges than any instruction (DIV 255/1: 515 steps) plus an interrupt entry can take
pub const STALL_LIMIT: i64 = 1200;

pub static TRACE: std::sync::atomic::AtomicBool = std::sync::atomic::AtomicBool::new(false);

#[derive(Clone, Copy, Debug, PartialEq, Eq)]
pub enum Ended {
    /// the machine halted and the reference agrees
    Halted,
    /// an undefined opcode is looping, as the reference predicts
    Hung,
}

#[derive(Clone, Copy, Debug, PartialEq, Eq)]
pub enum Compare {
    All,
    Int,
    Off,
}

#[derive(Clone, Debug, PartialEq, Eq)]
pub enum Event {
    None,
    Boundary,
    Halt,
    Hung,
}

#[derive(Clone)]
pub struct LockStep {
    pub prop: &'static str,
    pub sut: Machine,
    pub rf: Ref,
    /// clock edges issued so far (Real mode); the next edge is number `edge + 1`
    pub edge: i64,
    pub last_b: i64,
    /// key presses since the last sampling: (number of the edge they precede, enable bit seen by the
    /// SUT, IE flag of the SUT at that instant). A press with the enable bit set but IE clear is one
    /// the statement says nothing about: it may be held or forgotten.
    pub presses: Vec<(i64, bool, bool)>,
    pub hint: IoHint,
    pub insns: u64,
    pub entries: u64,
    pub ended: Option<Ended>,
    prev_done: bool,
    pub check_cost: bool,
    pub compare_board: bool,
    /// All: every boundary is compared (C01). Int: only boundaries that follow an interrupt entry
    /// or RETI (C04; other differences are C01's business and resynchronise silently). Off: never.
    pub compare: Compare,
    /// lenient: disagreements about halts / interrupt sampling between SUT and reference are some
    /// other property's business (C01, C04, C05): resynchronise instead of reporting. Only the
    /// oracles the check is about stay armed (cycle cost, completion, torn writes, reset state).
    pub lenient: bool,
    /// torn-instruction / reset-state oracles at reset stimuli (C07's business; C09 switches them off)
    pub check_reset: bool,
    cost_valid: bool,
    resync_next: bool,
    pub last: Option<StepInfo>,
    /// RAM before / after images of the torn instruction at the last reset (for the C07 oracle)
    pub unspec_count: u64,
}

pub fn io_snapshot(m: &Machine) -> IoHint {
    let mut h = [0u8; 16];
    for i in 0..16 {
        h[i] = m.bus().read(0xF0 + i as u8);
    }
    h
}

pub fn ref_from_setup(s: &Setup) -> Ref {
    let mut rf = Ref::power_on();
    rf.load_image(&s.image.bytes, s.image.stack, s.image.limit, s.image.keep_limit);
    for (a, v) in &s.pokes {
        if *a < 0xF0 {
            rf.ram[*a as usize] = *v;
        }
    }
    if let Some(r) = s.regs {
        rf.r = [r[0], r[1], r[2], r[3]];
        rf.fr = r[4];
        rf.sp = r[5];
    }
    rf.inputs = s.inputs;
    rf
}

fn rstate_of(s: State) -> RState {
    match s {
        State::Running => RState::Running,
        State::Stopped => RState::Stopped,
        State::ErrorStopped => RState::Error,
    }
}

impl LockStep {
    pub fn new(prop: &'static str, setup: &Setup) -> Self {
        let sut = setup.build();
        let rf = ref_from_setup(setup);
        let hint = io_snapshot(&sut);
        LockStep {
            prop,
            sut,
            rf,
            edge: 0,
            last_b: 0,
            presses: Vec::new(),
            hint,
            insns: 0,
            entries: 0,
            ended: None,
            prev_done: false,
            check_cost: true,
            compare_board: false,
            compare: Compare::All,
            lenient: false,
            check_reset: true,
            cost_valid: true,
            resync_next: false,
            last: None,
            unspec_count: 0,
        }
    }

    fn v(&self, oracle: &str, detail: String) -> Violation {
        Violation::new(self.prop, oracle, format!("edge={} insn#={} {}", self.edge, self.insns, detail))
    }

    pub fn asm(&self) -> bool {
        matches!(self.sut.step_mode(), StepMode::Assembly)
    }

    /// true while boundary-aligned stimuli may be applied (the fetch step has been executed and the
    /// instruction has not started yet), or the machine is halted
    pub fn at_boundary(&self) -> bool {
        self.sut.state() != State::Running || self.sut.is_instruction_done()
    }

    pub fn edges_since_boundary(&self) -> i64 {
        self.edge - self.last_b
    }

    /// Resynchronise the reference from the SUT (after an instruction whose result no property
    /// specifies, or after an unspecified CONTINUE).
    pub fn resync(&mut self) {
        let c = *self.sut.registers().content();
        self.rf.r = [c[0], c[1], c[2], c[3]];
        self.rf.fr = c[4];
        self.rf.sp = c[5];
        self.rf.ram.copy_from_slice(self.sut.bus().memory());
        self.rf.out = [self.sut.bus().output_fe(), self.sut.bus().output_ff()];
        self.rf.micr = (self.rf.micr & !1) | self.sut.bus().is_key_edge_int_enabled() as u8;
        for i in 0..4 {
            self.rf.inputs[i] = self.sut.bus().read(0xFC + i as u8);
        }
        let b = self.sut.bus().board();
        let rb = &mut self.rf.board;
        rb.di1 = *b.digital_input1();
        rb.do1 = *b.digital_output1();
        rb.do2 = *b.digital_output2();
        rb.temp = *b.temp();
        rb.ai = *b.analog_inputs();
        let d = b.dasr().bits();
        rb.j2 = d & 0x80 != 0;
        rb.j1 = d & 0x40 != 0;
        rb.fan_bit = d & 0x20 != 0;
        rb.comp = [d & 0x08 != 0, d & 0x10 != 0];
        rb.uio = [d & 1 != 0, d & 2 != 0, d & 4 != 0];
        rb.uio_out = *b.uio_dir();
        rb.icr = b.daicr().bits();
        let s = b.daisr().bits();
        rb.int_ff = s & 2 != 0;
        rb.source_flag = s & 1 != 0;
        self.rf.iff = self.sut.signals().interrupt_flipflop_1();
        self.rf.iff_unknown = false;
        self.rf.state = rstate_of(self.sut.state());
        self.unspec_count += 1;
    }

    /// Compare the architectural state (C01 observables). Returns the first difference.
    pub fn diff(&self) -> Option<String> {
        let c = self.sut.registers().content();
        const NAMES: [&str; 6] = ["R0", "R1", "R2", "PC", "FR", "SP"];
        let refv = [self.rf.r[0], self.rf.r[1], self.rf.r[2], self.rf.r[3], self.rf.fr, self.rf.sp];
        for i in 0..6 {
            if c[i] != refv[i] {
                return Some(format!("{} sut=0x{:02X} ref=0x{:02X}", NAMES[i], c[i], refv[i]));
            }
        }
        let mem = self.sut.bus().memory();
        for a in 0..240 {
            if mem[a] != self.rf.ram[a] {
                return Some(format!("RAM[0x{:02X}] sut=0x{:02X} ref=0x{:02X}", a, mem[a], self.rf.ram[a]));
            }
        }
        if self.sut.bus().output_fe() != self.rf.out[0] {
            return Some(format!("OUT-FE sut=0x{:02X} ref=0x{:02X}", self.sut.bus().output_fe(), self.rf.out[0]));
        }
        if self.sut.bus().output_ff() != self.rf.out[1] {
            return Some(format!("OUT-FF sut=0x{:02X} ref=0x{:02X}", self.sut.bus().output_ff(), self.rf.out[1]));
        }
        if self.sut.bus().is_key_edge_int_enabled() != self.rf.key_enabled() {
            return Some(format!(
                "key-edge-enable sut={} ref={}",
                self.sut.bus().is_key_edge_int_enabled(),
                self.rf.key_enabled()
            ));
        }
        if rstate_of(self.sut.state()) != self.rf.state {
            return Some(format!("state sut={} ref={:?}", state_name(self.sut.state()), self.rf.state));
        }
        for i in 0..4 {
            let v = self.sut.bus().read(0xFC + i as u8);
            if v != self.rf.inputs[i] {
                return Some(format!("IN-F{:X} sut=0x{:02X} ref=0x{:02X}", 0xC + i, v, self.rf.inputs[i]));
            }
        }
        if self.compare_board {
            if let Some(d) = self.board_diff() {
                return Some(d);
            }
        }
        None
    }

    pub fn board_diff(&self) -> Option<String> {
        let b = self.sut.bus().board();
        let rb = &self.rf.board;
        if *b.digital_output1() != rb.do1 {
            return Some(format!("board.DO1 sut=0x{:02X} ref=0x{:02X}", b.digital_output1(), rb.do1));
        }
        if *b.digital_output2() != rb.do2 {
            return Some(format!("board.DO2 sut=0x{:02X} ref=0x{:02X}", b.digital_output2(), rb.do2));
        }
        if *b.digital_input1() != rb.di1 {
            return Some(format!("board.DI1 sut=0x{:02X} ref=0x{:02X}", b.digital_input1(), rb.di1));
        }
        if b.dasr().bits() & DASR_SPEC_MASK != rb.dasr() & DASR_SPEC_MASK {
            return Some(format!("board.DASR sut=0x{:02X} ref=0x{:02X}", b.dasr().bits(), rb.dasr()));
        }
        if b.daisr().bits() & DAISR_SPEC_MASK != rb.daisr() & DAISR_SPEC_MASK {
            return Some(format!("board.DAISR sut=0x{:02X} ref=0x{:02X}", b.daisr().bits(), rb.daisr()));
        }
        if *b.uio_dir() != rb.uio_out {
            return Some(format!("board.UIO-dir sut={:?} ref={:?}", b.uio_dir(), rb.uio_out));
        }
        if b.daicr().bits() != rb.icr {
            return Some(format!("board.ICR sut=0x{:02X} ref=0x{:02X}", b.daicr().bits(), rb.icr));
        }
        None
    }

    fn desc(info: &StepInfo) -> String {
        match info.op2 {
            Some(b) => format!("op=0x{:02X},0x{:02X} {:?}{}", info.op, b, info.class, if info.interrupted { "+INT" } else { "" }),
            None => format!("op=0x{:02X} {:?}{}", info.op, info.class, if info.interrupted { "+INT" } else { "" }),
        }
    }

    /// interrupt sampling at the end of instruction `info`, given the boundary edge `b`
    fn sampling(&mut self, info: &mut StepInfo, b: i64) -> Result<(), Violation> {
        // definite press: enable bit and IE both set at the instant of the press (the case the
        // statement speaks about); maybe-press: enable bit set, IE clear (held or forgotten)
        let def = |p: &(i64, bool, bool)| p.1 && p.2;
        let may = |p: &(i64, bool, bool)| p.1 && !p.2;
        let any_def = self.presses.iter().any(def);
        let any_may = self.presses.iter().any(may);
        let held_def = self.rf.iff && !self.rf.iff_unknown;
        let held_may = self.rf.iff && self.rf.iff_unknown;
        if !info.samples {
            if any_def {
                self.rf.iff = true;
                self.rf.iff_unknown = false;
            } else if any_may && !held_def {
                self.rf.iff = true;
                self.rf.iff_unknown = true;
            }
            return Ok(());
        }
        let ie = self.rf.fr & F_IE != 0;
        if ie {
            let c_e = Ref::entry_cost(self.rf.sp) as i64;
            let s1 = if self.asm() || !self.cost_valid { i64::MAX } else { b - c_e };
            let def1 = held_def || self.presses.iter().any(|p| def(p) && p.0 <= s1);
            let may1 = held_may || self.presses.iter().any(|p| may(p) && p.0 <= s1);
            let late_def = self.presses.iter().any(|p| def(p) && p.0 > s1);
            let late_may = self.presses.iter().any(|p| may(p) && p.0 > s1);
            let after = |rf: &mut Ref| {
                rf.iff = late_def || late_may;
                rf.iff_unknown = !late_def && late_may;
            };
            if def1 {
                self.rf.enter_interrupt(info);
                self.entries += 1;
                after(&mut self.rf);
            } else if may1 {
                // held or forgotten: both outcomes are allowed; the state comparison decides. At a
                // halt (sampling edge unknown, b == i64::MAX) the question is whether an entry that
                // error-stops in one of its pushes explains the halt.
                let took = if b == i64::MAX {
                    let mut probe = self.rf.clone();
                    let mut i2 = info.clone();
                    probe.enter_interrupt(&mut i2);
                    i2.halted
                } else {
                    self.sut_took_interrupt()
                };
                if took {
                    self.rf.enter_interrupt(info);
                    self.entries += 1;
                    after(&mut self.rf);
                } else if late_def {
                    // forgotten; the definite press came after the sampling edge of an entry that did
                    // not happen: it is still latched
                    self.rf.iff = true;
                    self.rf.iff_unknown = false;
                } else {
                    self.rf.iff = false;
                    self.rf.iff_unknown = false;
                }
            } else if late_def {
                return Err(self.v(
                    "int-sampling",
                    format!(
                        "{}: key pressed before edges {:?} with enable bit and IE set, boundary at edge {} is neither an interrupt entry that started at edge {} nor an instruction end without interrupt",
                        Self::desc(info),
                        self.presses,
                        b,
                        s1
                    ),
                ));
            } else {
                // (only maybe-presses after the hypothetical sampling edge: no entry, forgotten or not
                // is decided at this very instruction end, so nothing stays latched)
                self.rf.iff = false;
                self.rf.iff_unknown = false;
            }
        } else if held_def || held_may || any_def || any_may {
            // sampled with IE clear: forgotten or held - not specified
            self.rf.iff = true;
            self.rf.iff_unknown = true;
        } else {
            self.rf.iff = false;
            self.rf.iff_unknown = false;
        }
        Ok(())
    }

    /// Observation used only where the properties leave the outcome open: does the SUT sit at the
    /// boundary that follows an interrupt entry (PC = 2, two bytes pushed)?
    fn sut_took_interrupt(&self) -> bool {
        let c = self.sut.registers().content();
        // (the stack pointer tells the two outcomes apart even when the next instruction is at 2)
        c[3] == 2 && c[5] == self.rf.sp.wrapping_sub(2)
    }

    fn check_presses(&self, info: &StepInfo) -> Result<(), Violation> {
        let before = info.micr_before & 1 != 0;
        let after = self.rf.micr & 1 != 0;
        for p in &self.presses {
            if p.1 != before && p.1 != after {
                return Err(self.v(
                    "press-enable",
                    format!(
                        "{}: key press before edge {} saw enable bit {} but MICR bit 0 is {} before and {} after the instruction",
                        Self::desc(info), p.0, p.1, before, after
                    ),
                ));
            }
        }
        Ok(())
    }

    fn on_boundary(&mut self) -> Result<Event, Violation> {
        let b = self.edge;
        let hint = self.hint;
        let mut info = self.rf.step(&hint);
        if (info.halted || !info.completes) && !(info.unspecified || self.resync_next) {
            let d = format!(
                "{}: SUT reached the next instruction boundary but the reference {}",
                Self::desc(&info),
                if info.halted { format!("halts ({:?})", self.rf.state) } else { "says this opcode never completes".into() }
            );
            return Err(self.v(if info.halted { "halt-missed" } else { "undefined-completes" }, d));
        }
        if TRACE.load(std::sync::atomic::Ordering::Relaxed) {
            eprintln!(
                "  B edge={} {} steps={} sut={:02X?} ref=[{:02X?} fr={:02X} sp={:02X}] iff={} presses={:?}",
                b, Self::desc(&info), info.steps, &self.sut.registers().content()[..6], self.rf.r, self.rf.fr, self.rf.sp, self.rf.iff, self.presses
            );
        }
        self.check_presses(&info)?;
        if self.resync_next || info.unspecified {
            // not comparable: follow the SUT
            self.presses.clear();
            self.resync();
            self.resync_next = false;
            self.cost_valid = true;
            self.last_b = b;
            let io = io_snapshot(&self.sut);
            self.rf.prefetch(&io);
            self.hint = io;
            self.rf.pending = Pending::Insn;
            self.insns += 1;
            self.last = Some(info);
            return Ok(Event::Boundary);
        }
        self.sampling(&mut info, b)?;
        self.presses.clear();
        if info.halted {
            let d = format!(
                "{}: SUT completed the interrupt entry but the reference error-stops in it ({:?} {:?})",
                Self::desc(&info), info.bad_sp, info.bad_pc
            );
            return Err(self.v("halt-missed", d));
        }
        // is this boundary compared?
        let io = io_snapshot(&self.sut);
        self.rf.prefetch(&io);
        let diff = self.diff();
        let compared = match self.compare {
            Compare::All => true,
            Compare::Int => info.interrupted || info.class == Class::Reti,
            Compare::Off => false,
        };
        if self.compare == Compare::Int && self.sut.bus().is_key_edge_int_enabled() != self.rf.key_enabled() {
            // whether the program has enabled the key is C04's business at every boundary
            return Err(self.v(
                "key-enable",
                format!(
                    "after {}: key-edge interrupt enabled = {} but bit 0 of the last byte the program wrote to 0xF9 is {}",
                    Self::desc(&info),
                    self.sut.bus().is_key_edge_int_enabled(),
                    self.rf.micr & 1
                ),
            ));
        }
        if diff.is_some() && !compared {
            // a difference that is another property's business: follow the SUT, skip the cost check
            self.resync();
            self.rf.pending = Pending::Insn;
            self.rf.prefetch(&io);
            self.cost_valid = !self.asm();
            self.last_b = b;
            self.hint = io;
            self.insns += 1;
            self.last = Some(info);
            return Ok(Event::Boundary);
        }
        if self.check_cost && self.cost_valid && !self.asm() {
            let actual = b - self.last_b;
            let expected = info.cost() as i64;
            if actual != expected {
                return Err(self.v(
                    "cycle-cost",
                    format!(
                        "{}: {} clock edges between boundaries, R-COST says {} (steps {} + 1 + waits {} for accesses {:02X?})",
                        Self::desc(&info), actual, expected, info.steps, info.waits(), &info.acc[..info.nacc]
                    ),
                ));
            }
        }
        self.cost_valid = !self.asm();
        self.last_b = b;
        self.hint = io;
        self.insns += 1;
        if let Some(d) = diff {
            return Err(self.v("arch-state", format!("after {}: {}", Self::desc(&info), d)));
        }
        self.last = Some(info);
        Ok(Event::Boundary)
    }

    fn on_halt(&mut self) -> Result<Event, Violation> {
        let hint = self.hint;
        let before = self.rf.clone();
        let mut info = self.rf.step(&hint);
        if self.resync_next || info.unspecified {
            // the instruction read a value no property specifies (or followed an unspecified
            // CONTINUE): whatever the reference predicts from it is not comparable
            self.resync();
            // what CONTINUE does after a halt reached through an unspecified instruction (e.g. a
            // 0x01 loaded as second opcode byte) is specified nowhere: follow the SUT once more
            self.resync_next = true;
            self.presses.clear();
            self.ended = Some(Ended::Halted);
            self.last = Some(info);
            return Ok(Event::Halt);
        }
        if !info.halted && info.completes {
            // maybe the halt is inside an interrupt entry
            let b = i64::MAX; // unknown sampling edge: any press so far may have been sampled
            let saved = self.cost_valid;
            self.cost_valid = false;
            let r = self.sampling(&mut info, b);
            self.cost_valid = saved;
            r?;
        }
        if !info.halted {
            let _ = before;
            return Err(self.v(
                "spurious-halt",
                format!(
                    "{}: SUT went {} but the reference completes this instruction",
                    Self::desc(&info),
                    state_name(self.sut.state())
                ),
            ));
        }
        // a halt does not sample the key flip-flop: presses made before it stay latched
        if !info.interrupted {
            if self.presses.iter().any(|p| p.1 && p.2) {
                self.rf.iff = true;
                self.rf.iff_unknown = false;
            } else if self.presses.iter().any(|p| p.1) && !(self.rf.iff && !self.rf.iff_unknown) {
                self.rf.iff = true;
                self.rf.iff_unknown = true;
            }
        }
        self.presses.clear();
        let ss = rstate_of(self.sut.state());
        if ss != self.rf.state {
            return Err(self.v(
                "halt-kind",
                format!("{}: SUT state {} but reference {:?}", Self::desc(&info), state_name(self.sut.state()), self.rf.state),
            ));
        }
        let c = self.sut.registers().content();
        if let Some(v) = info.bad_sp {
            if c[5] != v {
                return Err(self.v("halt-reg", format!("{}: error stop with SP=0x{:02X}, reference says SP=0x{:02X} breaks the rule", Self::desc(&info), c[5], v)));
            }
        } else if let Some(v) = info.bad_pc {
            if c[3] != v {
                return Err(self.v("halt-reg", format!("{}: error stop with PC=0x{:02X}, reference says PC=0x{:02X} breaks the rule", Self::desc(&info), c[3], v)));
            }
        } else if !info.unspecified {
            // STOP or opcode 0x00 as first or second byte: whole state is defined
            if info.op2.is_none() && self.check_cost && self.cost_valid && !self.asm() {
                let actual = self.edge - self.last_b;
                let expected = 1 + info.waits() as i64;
                if actual != expected {
                    return Err(self.v(
                        "cycle-cost",
                        format!("{}: halted {} edges after the boundary, expected {}", Self::desc(&info), actual, expected),
                    ));
                }
            }
            if let Some(d) = self.diff() {
                if self.compare == Compare::All {
                    return Err(self.v("arch-state", format!("at halt in {}: {}", Self::desc(&info), d)));
                }
                self.resync();
            }
        }
        if info.unspecified {
            self.resync_next = true;
        }
        self.insns += 1;
        self.ended = Some(Ended::Halted);
        self.last = Some(info);
        Ok(Event::Halt)
    }

    fn on_stall(&mut self) -> Result<Event, Violation> {
        let hint = self.hint;
        let mut probe = self.rf.clone();
        let info = probe.step(&hint);
        if info.completes || info.halted {
            return Err(self.v(
                "no-completion",
                format!(
                    "{}: no instruction boundary within {} clock edges although the reference completes it in {}",
                    Self::desc(&info),
                    STALL_LIMIT,
                    info.cost()
                ),
            ));
        }
        self.ended = Some(Ended::Hung);
        self.last = Some(info);
        Ok(Event::Hung)
    }

    /// One `trigger_key_clock` on the SUT (one edge in Real mode, a burst in Assembly mode).
    pub fn tick(&mut self) -> Result<Event, Violation> {
        match self.tick_strict() {
            Err(v) if self.lenient && matches!(v.oracle.as_str(), "halt-missed" | "int-sampling" | "press-enable" | "spurious-halt" | "halt-kind" | "halt-reg" | "arch-state") => {
                // not this check's business: follow the SUT
                self.presses.clear();
                self.resync();
                self.resync_next = false;
                self.rf.pending = Pending::Insn;
                let io = io_snapshot(&self.sut);
                self.rf.prefetch(&io);
                self.hint = io;
                self.last_b = self.edge;
                self.cost_valid = false;
                self.prev_done = self.sut.is_instruction_done();
                if self.sut.state() != State::Running {
                    self.ended = Some(Ended::Halted);
                    return Ok(Event::Halt);
                }
                Ok(Event::Boundary)
            }
            r => r,
        }
    }

    fn tick_strict(&mut self) -> Result<Event, Violation> {
        if self.ended.is_some() {
            // halted or hung: edges change nothing the reference models; still clock the SUT
            self.sut.trigger_key_clock();
            if !self.asm() {
                self.edge += 1;
            }
            return Ok(Event::None);
        }
        let asm = self.asm();
        self.sut.trigger_key_clock();
        if !asm {
            self.edge += 1;
        }
        if self.sut.state() != State::Running {
            return self.on_halt();
        }
        let done = self.sut.is_instruction_done();
        let boundary = if asm { done } else { done && !self.prev_done };
        self.prev_done = done;
        if boundary {
            return self.on_boundary();
        }
        if asm {
            // an Assembly step that returned without boundary and without halt: only an undefined
            // opcode may do that (on_stall asks the reference)
            return self.on_stall();
        }
        if self.edge - self.last_b > STALL_LIMIT {
            return self.on_stall();
        }
        Ok(Event::None)
    }

    /// Apply a stimulus to SUT and reference. Returns false if the stimulus is boundary-aligned and
    /// the machine is in the middle of an instruction (the caller defers it).
    pub fn stim(&mut self, s: &Stim) -> Result<bool, Violation> {
        match s {
            Stim::KeyInt => {
                let en = self.sut.bus().is_key_edge_int_enabled();
                let n = if self.asm() { i64::MIN / 2 } else { self.edge + 1 };
                let ie = self.sut.registers().interrupt_enable_flag();
                s.apply(&mut self.sut);
                self.presses.push((n, en, ie));
                if self.at_boundary() {
                    self.hint = io_snapshot(&self.sut);
                }
            }
            Stim::Continue => {
                let was = self.sut.state();
                s.apply(&mut self.sut);
                if was == State::Stopped {
                    if self.sut.state() != State::Running {
                        return Err(self.v("continue", "CONTINUE on a stopped machine did not resume it".into()));
                    }
                    self.rf.key_continue();
                    self.ended = None;
                    self.last_b = self.edge;
                    self.prev_done = false;
                    self.cost_valid = !self.asm();
                } else if self.sut.state() != was {
                    return Err(self.v(
                        "continue",
                        format!("CONTINUE changed state {} -> {}", state_name(was), state_name(self.sut.state())),
                    ));
                }
            }
            Stim::CpuReset | Stim::MasterReset | Stim::Load(_) => {
                if self.check_reset {
                    self.torn_ram_check(s)?;
                } else {
                    self.rf.ram.copy_from_slice(self.sut.bus().memory());
                }
                s.apply(&mut self.sut);
                match s {
                    Stim::CpuReset => self.rf.cpu_reset(),
                    Stim::MasterReset => self.rf.master_reset(),
                    Stim::Load(img) => self.rf.load_image(&img.bytes, img.stack, img.limit, img.keep_limit),
                    _ => unreachable!(),
                }
                self.presses.clear();
                self.ended = None;
                self.resync_next = false;
                self.last_b = self.edge;
                self.prev_done = false;
                self.cost_valid = !self.asm();
                self.hint = io_snapshot(&self.sut);
                if let Some(d) = self.diff() {
                    if self.check_reset {
                        return Err(self.v("reset-state", format!("right after {}: {}", s.kind(), d)));
                    }
                    self.resync();
                }
            }
            Stim::Mode(_) => {
                s.apply(&mut self.sut);
                if self.asm() {
                    self.cost_valid = false;
                }
            }
            _ => {
                if !self.at_boundary() {
                    return Ok(false);
                }
                s.apply(&mut self.sut);
                ref_apply_env(&mut self.rf, s);
                self.hint = io_snapshot(&self.sut);
            }
        }
        Ok(true)
    }

    /// C07 crash consistency: at a reset in mid-instruction every RAM byte equals the value before
    /// or after the instruction in flight (with or without a following interrupt entry). The
    /// reference RAM is then set to what the SUT holds.
    fn torn_ram_check(&mut self, s: &Stim) -> Result<(), Violation> {
        if self.ended == Some(Ended::Halted) && self.sut.state() == State::ErrorStopped {
            // after a supervision error stop the rest of the offending edge has been executed (G)
            self.rf.ram.copy_from_slice(self.sut.bus().memory());
            return Ok(());
        }
        if self.resync_next {
            self.rf.ram.copy_from_slice(self.sut.bus().memory());
            return Ok(());
        }
        let hint = self.hint;
        let mut a = self.rf.clone();
        let mut info = a.step(&hint);
        let mut b = a.clone();
        if a.state == RState::Running && info.completes {
            b.enter_interrupt(&mut info);
        }
        if info.unspecified {
            self.rf.ram.copy_from_slice(self.sut.bus().memory());
            return Ok(());
        }
        let mem = *self.sut.bus().memory();
        for i in 0..240 {
            let v = mem[i];
            if v != self.rf.ram[i] && v != a.ram[i] && v != b.ram[i] {
                return Err(self.v(
                    "torn-write",
                    format!(
                        "{} during {}: RAM[0x{:02X}]=0x{:02X} is neither the value before (0x{:02X}) nor after (0x{:02X}/0x{:02X}) the instruction in flight",
                        s.kind(), Self::desc(&info), i, v, self.rf.ram[i], a.ram[i], b.ram[i]
                    ),
                ));
            }
        }
        self.rf.ram = mem;
        Ok(())
    }

    /// class of the instruction currently in flight (by the reference), for coverage keys
    pub fn inflight_class(&self) -> Class {
        match self.rf.pending {
            Pending::ResetFetch => Class::Reset,
            Pending::ContinueNop => Class::Stop,
            Pending::Insn => class_of(self.rf.latch),
        }
    }
}

/// Apply an environment-side / second-party stimulus to the reference model.
pub fn ref_apply_env(rf: &mut Ref, s: &Stim) {
    match s {
        Stim::InReg(i, v) => rf.inputs[(*i & 3) as usize] = *v,
        Stim::Di(v) => rf.board.set_di1(*v),
        Stim::Jumper(n, v) => rf.board.set_jumper(*n, *v),
        Stim::Uio(n, v) => rf.board.set_uio((*n as usize).clamp(1, 3) - 1, *v),
        Stim::Volt(w, bits) => {
            let f = f32::from_bits(*bits);
            match w {
                0 => rf.board.set_temp(f),
                1 => rf.board.set_ai(0, f),
                _ => rf.board.set_ai(1, f),
            }
        }
        Stim::BusWrite(a, v) => rf.poke(*a, *v),
        Stim::BusRead(_) => {}
        Stim::Flip(a, bit) => {
            if *a < 0xF0 {
                rf.ram[*a as usize] ^= 1 << (bit & 7);
            }
        }
        _ => {}
    }
}

pub fn class_of(op: u8) -> Class {
    match op {
        0x00 => Class::ErrorOp,
        0x01 => Class::Stop,
        0x02 | 0x03 => Class::Nop,
        0x04..=0x07 => Class::Clr,
        0x08..=0x0B => Class::Ei,
        0x0C..=0x0F => Class::Di,
        0x10..=0x13 => Class::Push,
        0x14..=0x17 => Class::Pop,
        0x18..=0x1B => Class::PushF,
        0x1C..=0x1F => Class::PopF,
        0x20..=0x27 => Class::Jr,
        0x28..=0x2B => Class::Call,
        0x2C..=0x2F => Class::Reti,
        0x30..=0x33 => Class::Com,
        0x34..=0x37 => Class::Neg,
        0x38..=0x3B => Class::Lsr,
        0x3C..=0x3F => Class::Asr,
        0x40..=0x43 => Class::Rrc,
        0x44..=0x47 => Class::Inc,
        0x48..=0x4B => Class::Tst,
        0x4C..=0x4F | 0xE0..=0xEF => Class::Undefined1,
        0x50..=0x53 => Class::Dec,
        0x54..=0x5F => Class::DecMem,
        0x60..=0x6F => Class::Add,
        0x70..=0x7F => Class::Adc,
        0x80..=0x8F => Class::Sub,
        0x90..=0x9F => Class::And,
        0xA0..=0xAF => Class::Or,
        0xB0..=0xBF => Class::Mul,
        0xC0..=0xCF => Class::Div,
        0xD0..=0xDF => Class::Xor,
        _ => Class::Mov,
    }
}
